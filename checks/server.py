"""Shared server-side contract machinery (C04, C08, C19-initialize): ProtocolHandler / MCPServer objects,
the handler contract H for dynamic dispatch, response inspection helpers."""
from __future__ import annotations

import z3

from pyvc import vals as V
from pyvc.vals import Val
from pyvc import prelude as P
from pyvc import envs as E
from pyvc import pyd
from pyvc.core import PyRaise, FnDesc
from pyvc.verify import Contract
from checks.sendmsg import MESSAGE

PH = "src/chuk_mcp/server/protocol_handler.py"
SRV = "src/chuk_mcp/server/server.py"
MEM = "src/chuk_mcp/server/session/memory.py"
JSONRPC = "src/chuk_mcp/protocol/messages/json_rpc_message.py"
INFO = "src/chuk_mcp/protocol/types/info.py"
CAPS = "src/chuk_mcp/protocol/types/capabilities.py"


def install(ctx):
    E.install_standard(ctx)
    pyd.install(ctx)
    ctx.env_class(MESSAGE)
    ctx.dynamic_call_hook = dynamic_call


def klass(I, key):
    return I.ctx.repo_class(I.ctx.repo.klass(key))


def make_message(I, kind):
    """An incoming message object.  kind: 'request' (id int|str) | 'notification' (no id) | 'any'."""
    mid = I.fresh("msg_id")
    if kind == "request":
        I.assume(z3.Or(V.is_int(mid), V.is_str(mid)))
    elif kind == "notification":
        mid = V.NONE
    else:
        I.assume(z3.Or(V.is_none(mid), V.is_int(mid), V.is_str(mid)))
    method = I.fresh("msg_method")
    I.assume(V.is_str(method))
    params = I.fresh("msg_params")
    # params of every JSON shape (missing, wrong types, null)
    I.assume(z3.Or(V.is_none(params), V.is_dict(params), V.is_list(params), V.is_str(params), V.is_int(params),
                   V.is_bool(params)))
    I.assume(z3.Implies(V.is_dict(params), Val.dsize(params) >= 0))
    # dict well-formedness (a dict that contains a key is not empty), ground-instantiated at the looked-up keys
    for k in ("protocolVersion", "clientInfo", "name", "uri", "arguments"):
        I.assume(z3.Implies(z3.And(V.is_dict(params), z3.Select(Val.dkeys(params), z3.StringVal(k))),
                            Val.dsize(params) >= 1))
    cd = I.ctx.env_class(MESSAGE)
    m = I.new_object(cd, {"id": mid, "method": method, "params": params, "jsonrpc": V.VStr("2.0")})
    return m, mid, method, params


def make_protocol_handler(I, handlers=None):
    """A ProtocolHandler with an arbitrary registry (or the given one), arbitrary server info/capabilities and a
    session manager holding an arbitrary store."""
    si = I.new_object(klass(I, f"{INFO}::ServerInfo"),
                      {"name": I.fresh("si_name"), "version": I.fresh("si_version"), "title": V.NONE,
                       pyd.EXTRA: V.VDict([])})
    caps_fields = {f: V.NONE for f in ("experimental", "logging", "prompts", "resources", "tools", "completion")}
    caps_fields[pyd.EXTRA] = V.VDict([])
    caps = I.new_object(klass(I, f"{CAPS}::ServerCapabilities"), caps_fields)
    sessions = I.fresh("sessions")
    I.assume(z3.And(V.is_dict(sessions), Val.dsize(sessions) >= 0, Val.did(sessions) > 0, Val.did(sessions) < 1_000_000))
    sm = I.new_object(klass(I, f"{MEM}::InMemorySessionManager"), {"sessions": sessions})
    if handlers is None:
        handlers = I.fresh("handlers")
        I.assume(z3.And(V.is_dict(handlers), Val.dsize(handlers) >= 0))
    ph = I.new_object(klass(I, f"{PH}::ProtocolHandler"),
                      {"server_info": si, "capabilities": caps, "session_manager": sm, "_handlers": handlers})
    I.ph_parts = dict(server_info=si, capabilities=caps, session_manager=sm, sessions=sessions, handlers=handlers)
    info_cid = klass(I, "src/chuk_mcp/server/session/base.py::SessionInfo").cid
    prev = getattr(I, "dict_entry_hook", None)

    def session_wf(I2, D, k):
        """representation invariant of the session store (C19): entries are live SessionInfo records"""
        if prev is not None:
            prev(I2, D, k)
        if not z3.eq(z3.simplify(Val.did(z3.simplify(D))), z3.simplify(Val.did(sessions))):
            return
        rec = z3.Select(Val.dvals(D), k)
        o = Val.oid(rec)
        I2.assume(z3.Implies(z3.Select(Val.dkeys(D), k),
                             z3.And(V.is_obj(rec), o > 0, o < 1_000_000, z3.Select(I2.ctx.cls0, o) == info_cid)))
    I.dict_entry_hook = session_wf
    return ph


def dynamic_call(I, fv, args, kwargs, node, awaited):
    """Handler contract H (registry element invariant) and user tool/resource callables.
    A registered callable, called with (message, session_id):
       returns a pair (resp, sid) where - if the message has an id - resp is a response or error object whose
       id equals the message id;  or returns something that is not a pair ('nonsense');  or raises any Exception.
    Any other symbolic callable (a tool / resource handler): returns any value or raises any Exception."""
    I.assume(z3.Or(V.is_fn(fv), V.is_obj(fv)))            # the registries hold callables
    role = getattr(I, "dynamic_role", "handler")
    I.ghost["dynamic_calls"] = I.ghost.get("dynamic_calls", 0) + 1
    c = I.choose_n(3 if role == "handler" else 2, f"{role}_outcome")
    if c == 1:
        I.ghost["callee_raised"] = True
        raise PyRaise(I.make_exc("AnyException", V.VStr(I.fresh("hmsg", z3.StringSort()))), "AnyException")
    if role != "handler":
        return I.fresh("callee_result")
    if c == 2:
        r = I.fresh("nonsense")
        I.assume(z3.Not(z3.And(z3.Or(V.is_tuple(r), V.is_list(r)),
                               z3.Length(z3.If(V.is_tuple(r), Val.titems(r), Val.items(r))) == 2)))
        I.ghost["callee_nonsense"] = True
        return r
    msg = args[0]
    mid, _ = I.get_field(msg, "id")
    resp = I.fresh("h_resp")
    sid = I.fresh("h_sid")
    I.assume(z3.Or(V.is_none(sid), V.is_str(sid)))
    rid = z3.Select(I.st.field("id")[0], Val.oid(resp))
    has = z3.Select(I.st.field("id")[1], Val.oid(resp))
    I.assume(z3.Implies(z3.Not(V.is_none(mid)), z3.And(V.is_obj(resp), Val.oid(resp) > 0, Val.oid(resp) < 1_000_000,
                                                      has, rid == mid, Resp(I, resp).one_of_result_error())))
    I.ghost["handler_response"] = resp
    return V.VTuple([resp, sid])


class Resp:
    """inspection of a response object built by create_response / create_error_response"""

    def __init__(self, I, r):
        self.I, self.r = I, r

    def f(self, name):
        return self.I.get_field(self.r, name)

    def has_id(self, mid):
        v, h = self.f("id")
        return z3.And(V.is_obj(self.r), h, v == mid)

    def is_result(self):
        res, hr = self.f("result")
        err, he = self.f("error")
        return z3.And(hr, z3.Not(he))

    def is_error(self, code=None):
        res, hr = self.f("result")
        err, he = self.f("error")
        c = z3.Select(Val.dvals(err), z3.StringVal("code"))
        m = z3.Select(Val.dvals(err), z3.StringVal("message"))
        conds = [he, z3.Not(hr), V.is_dict(err), z3.Select(Val.dkeys(err), z3.StringVal("code")), V.is_int(c),
                 z3.Select(Val.dkeys(err), z3.StringVal("message")), V.is_str(m)]
        if code is not None:
            conds.append(c == V.VInt(code))
        return z3.And(conds)

    def one_of_result_error(self):
        return z3.Or(self.is_result(), self.is_error())


def pair(result):
    """(is a 2-tuple, first, second)"""
    it = Val.titems(result)
    return z3.And(V.is_tuple(result), z3.Length(it) == 2), it[0], it[1]
