"""C05 - stdio inbound framing is independent of how the byte stream is chunked."""
from __future__ import annotations

import z3

from pyvc import vals as V
from pyvc.vals import Val
from pyvc import prelude as P
from pyvc import envs as E
from pyvc.core import PyRaise
from pyvc.loader import Unsupported
from pyvc.check import Check, Canary, Lemma, AuditResult
from pyvc.verify import Contract
from checks import stdio as ST
from checks.stdio import STDIO, NL

S = z3.StringSort()
utf8_inc = z3.Function("utf8_inc", S, S)         # total output of an incremental utf-8 decoder fed these bytes
J = z3.Function("J", V.SeqVal, V.SeqVal)         # J(lines) = the JSON documents of the well-formed lines, in order


def sp(text):
    return P.split_of(text, NL)


def init(seq):
    return z3.Extract(seq, 0, z3.Length(seq) - 1)


def last(seq):
    return seq[z3.Length(seq) - 1]


def good(line):
    """a complete line contributes a document iff, stripped, it is non-empty valid JSON"""
    st = P.strip_of(line)
    return z3.And(z3.Length(st) > 0, ST.json_ok(st))


def jl(line):
    return z3.If(good(line), z3.Unit(ST.json_val(P.strip_of(line))), z3.Empty(V.SeqVal))


class DecoderEnv(E.EnvClass):
    """codecs incremental utf-8 decoder (errors='replace').  Ghost: fed (all bytes so far), out (all text so far).
    Contract: out is a function of fed alone:  out == utf8_inc(fed);  decode(b) returns the increment."""
    name = "IncrementalDecoder"

    def __init__(self):
        self.methods = {"decode": self.decode}

    def decode(self, I, recv, args, kwargs):
        b = args[0]
        if not I.choose(V.is_bytes(b), "decode_arg_is_bytes"):
            I.throw("TypeError", "a bytes-like object is required")
        fed = Val.s(E.gfield(I, recv, "fed"))
        out = Val.s(E.gfield(I, recv, "out"))
        fed2 = z3.Concat(fed, Val.bs(b))
        d = I.fresh("decoded", S)
        I.assume(z3.Concat(out, d) == utf8_inc(fed2))
        I.set_attr(recv, "fed", V.VStr(fed2))
        I.set_attr(recv, "out", V.VStr(z3.Concat(out, d)))
        return V.VStr(d)


DECODER = DecoderEnv()


def x_getincrementaldecoder(I, args, kwargs, node):
    enc = P.pystr(Val.s(z3.simplify(args[0])))
    if enc not in ("utf-8", "utf8"):
        from pyvc.loader import Unsupported
        raise Unsupported(f"incremental decoder for {enc}", node)

    def factory(I2, a, k, n):
        ob = E.new_env_object(I2, DECODER, fed=V.VStr(""), out=V.VStr(""))
        I2.assume(utf8_inc(z3.StringVal("")) == z3.StringVal(""))
        I2.ghost["decoder"] = ob
        return ob
    from pyvc.core import FnDesc
    return I.ctx.fn_val(FnDesc("builtin", factory, name="IncrementalDecoderFactory"))


class ProcessDataModular(Contract):
    """call-site form of _process_message_data's contract (proved in C13's transport part): it handles `data`
    (recorded in the ghost sequence `processed`) and never raises an Exception."""
    key = f"{STDIO}::StdioClient._process_message_data"

    def apply(self, I, args, kwargs, node):
        client, data = args[0], args[1]
        holder = I.ghost["holder"]
        p = Val.items(E.gfield(I, holder, "processed"))
        I.set_attr(holder, "processed", V.VList(z3.simplify(z3.Concat(p, z3.Unit(data)))))
        E.checkpoint_nofire(I)
        return V.NONE


class GhostHolder(E.EnvClass):
    name = "ReaderGhost"
    methods = {}


HOLDER = GhostHolder()


class StdoutReader(Contract):
    key = f"{STDIO}::StdioClient._stdout_reader"
    prop = "C05"
    covers = ("return",)

    def setup(self, I):
        I.c05 = self
        proc, out, inn, chunks = ST.make_process(I)
        self.proc, self.out, self.chunks = proc, out, chunks
        self.client = ST.make_client(I, process=proc)
        # ghost state of the proof lives on a holder object so that loop havoc covers it
        self.holder = E.new_env_object(I, HOLDER, processed=V.VList([]), bytes_total=V.VStr(""), text=V.VStr(""))
        I.ghost["holder"] = self.holder
        I.on_chunk = self.on_chunk
        # base facts: "".split("\n") == [""]  and  J([]) == []
        I.assume(sp(z3.StringVal("")) == z3.Unit(V.VStr("")))
        I.assume(J(z3.Empty(V.SeqVal)) == z3.Empty(V.SeqVal))
        return [self.client], {}

    # ---- hooks
    def on_chunk(self, I, ch):
        """the OS delivers the next chunk: bytes (anyio process streams yield bytes)"""
        I.assume(V.is_bytes(ch))
        bt = Val.s(E.gfield(I, self.holder, "bytes_total"))
        I.set_attr(self.holder, "bytes_total", V.VStr(z3.Concat(bt, Val.bs(ch))))
        I.ghost["chunk_pending"] = True

    def g(self, I, name):
        return E.gfield(I, self.holder, name)

    def text(self, I):
        dec = I.ghost.get("decoder")
        if dec is None:
            return None
        return Val.s(E.gfield(I, dec, "out"))

    def post(self, I, result):
        chunks = Val.items(E.gfield(I, self.out, "chunks"))
        pos = Val.i(E.gfield(I, self.out, "pos"))
        ended = z3.Or(pos == z3.Length(chunks), z3.BoolVal(bool(I.ghost.get("read_error"))))
        I.oblige(self.name("reader_runs_until_the_stream_ends"), ended)
        text = self.text(I)
        if text is None:
            I.oblige(self.name("decodes_incrementally"), z3.BoolVal(False))
            return
        bt = Val.s(self.g(I, "bytes_total"))
        processed = Val.items(self.g(I, "processed"))
        # chunk independence: what was handled is a function of the CONCATENATED byte stream alone
        I.oblige(self.name("handled_documents_depend_only_on_the_concatenated_byte_stream"),
                 z3.Implies(pos == z3.Length(chunks),
                            z3.And(text == utf8_inc(bt), processed == J(init(sp(text))))))

    def post_exc(self, I, e):
        I.oblige(self.name(f"reader_never_dies[{e.cls_name}]"), z3.BoolVal(e.cls_name == "CancelledError"))


def carried_buffer(I, phase):
    """the reader's carried-over text fragment, identified by ROLE, not by name: the one str-valued local that
    exists when the chunk loop is entered (whatever it is called).  Remembered per path at loop entry."""
    if phase == "entry":
        from pyvc.interp import MaybeUnbound
        cands = [n for n, v in I.frame.vars.items()
                 if not n.startswith("__") and not isinstance(v, MaybeUnbound) and z3.is_expr(v)
                 and V.ctor_name(z3.simplify(v)) == "str"]
        I.ghost["c05_buffer_name"] = cands[0] if len(cands) == 1 else None
    nm = I.ghost.get("c05_buffer_name")
    return I.frame.vars.get(nm) if nm else None


def outer_inv(I, phase):
    c = I.c05
    name = "C05._stdout_reader.chunk_loop"
    text = c.text(I)
    if text is None:
        import os, traceback
        if os.environ.get("PYVC_DEBUG"):
            with open("/tmp/c05_debug.log", "a") as f:
                f.write(f"pid={os.getpid()} phase={phase} ghost={list(I.ghost)} trace={I.trace[-5:]} externs={'codecs.getincrementaldecoder' in I.ctx.extern_handlers} repo_over={list(I.ctx.repo.overrides)}\n")
        return [(f"{name}.decodes_incrementally", z3.BoolVal(False))]
    buf = carried_buffer(I, phase)
    if buf is None:
        raise Unsupported("C05 proof script: no single carried text buffer found at the chunk loop (the loop invariant "
                          "was written for a reader that carries one str fragment between chunks)")
    bt = Val.s(c.g(I, "bytes_total"))
    processed = Val.items(c.g(I, "processed"))
    dec = I.ghost["decoder"]
    fed = Val.s(E.gfield(I, dec, "fed"))
    spt = sp(text)
    return [
        (f"{name}.decoder_has_seen_exactly_the_bytes_delivered", z3.And(fed == bt, text == utf8_inc(bt))),
        (f"{name}.buffer_is_the_unterminated_tail_of_the_text",
         z3.And(V.is_str(buf), z3.Length(spt) >= 1, V.VStr(Val.s(buf)) == last(spt))),
        (f"{name}.handled_documents_are_those_of_the_complete_lines", processed == J(init(spt))),
    ]


def inner_inv(I, phase):
    c = I.c05
    name = "C05._stdout_reader.line_loop"
    i = Val.i(I.frame.vars["__i1"])
    processed = Val.items(c.g(I, "processed"))
    base = I.ghost.get("complete_lines_before_this_chunk")
    split_now = I.ghost.get("split_of_this_chunk")
    seq = getattr(I, "loop_seq", None)
    if I.ghost.get("split_without_decoder") and phase == "entry":
        # chunk independence needs every byte to pass through ONE incremental decoder (a character may straddle chunks)
        return [("C05._stdout_reader.chunk_loop.decodes_incrementally", z3.BoolVal(False))]
    if base is None or split_now is None or seq is None:
        raise Unsupported("C05 proof script: the line loop does not run over the pieces of a str.split of this chunk")
    # the loop runs over the complete lines of this chunk's split (all but the last piece), whatever the local that
    # holds them is called and however the slice was taken
    lines = split_now
    n1 = z3.Length(lines) - 1
    done = z3.Concat(base, z3.Extract(lines, 0, i))
    out = [(f"{name}.iterates_over_the_complete_lines_of_the_split", seq == z3.Extract(lines, 0, n1)),
           (f"{name}.handled_documents_follow_the_lines_in_order", processed == J(done)),
           (f"{name}.index_in_range", z3.And(i >= 0, i <= n1))]
    if phase in ("head",):
        # unfolding of J at the line about to be handled, and shape of split results (prelude lemmas)
        l = lines[i]
        I.assume(z3.Implies(i < n1,
                            z3.And(V.is_str(l), J(z3.Concat(done, z3.Unit(l))) == z3.Concat(J(done), jl(Val.s(l))))))
        # sequence identities (theorems of the sequence theory, given as hints)
        I.assume(z3.Implies(i < n1, z3.And(z3.Extract(lines, 0, n1)[i] == l, seq[i] == l,
                                           z3.Extract(lines, 0, i + 1) == z3.Concat(z3.Extract(lines, 0, i), z3.Unit(l)))))
    return out


class LinesHook:
    """prelude lemmas about str.split, instantiated where the reader splits its buffer:
       (L1) split(a ++ b) == init(split(a)) ++ split(last(split(a)) ++ b)      [split distributes over concatenation]
       (L2) split(x) has at least one element and all elements are str"""


def split_lemma_hook(I, x, sep, result_seq):
    c = getattr(I, "c05", None)
    if c is None:
        return
    text = c.text(I)
    if text is None:
        return
    # the buffer being split is last(split(text_before)) ++ d where text == text_before ++ d
    tb = I.ghost.get("text_before_chunk")
    d = I.ghost.get("chunk_text")
    if tb is None or d is None:
        # a buffer is split in an iteration in which no chunk went through the incremental decoder
        I.ghost["split_without_decoder"] = True
        return
    spb = sp(tb)
    new = sp(z3.Concat(tb, d))
    I.assume(new == z3.Concat(init(spb), sp(z3.Concat(Val.s(last(spb)), d))))
    I.assume(z3.Length(result_seq) >= 1)
    # consequences of L1 by sequence algebra (|split(...)| >= 1), stated explicitly as solver hints: the proof of the
    # buffer invariant was otherwise sensitive to symbol naming (0.5 s or > 60 s)
    buf_d = sp(z3.Concat(Val.s(last(spb)), d))
    I.assume(z3.Implies(z3.And(z3.Length(buf_d) >= 1, z3.Length(spb) >= 1),
                        z3.And(last(new) == last(buf_d),
                               init(new) == z3.Concat(init(spb), init(buf_d)),
                               z3.Length(new) == z3.Length(spb) - 1 + z3.Length(buf_d))))
    k = z3.Int("k!sp")
    I.assume(z3.ForAll([k], z3.Implies(z3.And(k >= 0, k < z3.Length(result_seq)), V.is_str(result_seq[k]))))
    I.ghost["complete_lines_before_this_chunk"] = init(spb)
    I.ghost["split_of_this_chunk"] = result_seq


class TrackedDecoder(DecoderEnv):
    name = "IncrementalDecoder"

    def decode(self, I, recv, args, kwargs):
        out_before = Val.s(E.gfield(I, recv, "out"))
        r = super().decode(I, recv, args, kwargs)
        I.ghost["text_before_chunk"] = out_before
        I.ghost["chunk_text"] = Val.s(r)
        return r


class C05(Check):
    prop = "C05"
    level = "proof"
    title = ("_stdout_reader proved against the chunk-independence postcondition: the JSON documents handed on are "
             "J(complete lines of utf8_inc(concatenated bytes)) for every chunking; buffer/split invariant over the "
             "chunk loop, lock-step invariant over the line loop; a bad line changes nothing but its own absence")
    design_ref = "section 7, C05"
    trusted = [
        "prelude lemma L1 (audited against CPython): split(a+b, sep) == split(a, sep)[:-1] + split(split(a, sep)[-1] + b, sep); "
        "split results are non-empty lists of str",
        "incremental utf-8 decoder: total output is a function of the total input (utf8_inc); per-chunk strict "
        "decoding is NOT assumed to have this property",
        "J is specified by its unfolding J(S ++ [l]) = J(S) ++ (good(l) ? [json(strip(l))] : []), instantiated per line",
        "_process_message_data is used through its contract (C13 transport part): handles the document, never raises",
        "fast_json.loads through its contract (C17)",
    ]

    def install(self, ctx):
        ST.install(ctx)
        global DECODER
        DECODER = TrackedDecoder()
        ctx.env_class(DECODER)
        ctx.env_class(HOLDER)
        ctx.extern_handlers["codecs.getincrementaldecoder"] = x_getincrementaldecoder
        ctx.split_hook = split_lemma_hook

    def modular(self):
        return {f"{STDIO}::StdioClient._process_message_data": ProcessDataModular(),
                f"{ST.FASTJSON}::loads": ST.LoadsModular()}

    def contracts(self):
        from checks import C13
        # "handed to message processing" ends on the read stream: the routing step (every message is offered to the
        # shared read stream exactly once, whatever the state of the notification side channel) is re-verified here
        return [StdoutReader(), C13.RouteMessage()]

    def loop_invariants(self):
        k = f"{STDIO}::StdioClient._stdout_reader"
        return {(k, 0): outer_inv, (k, 1): inner_inv}

    def canaries(self):
        return [
            Canary("buffer reset instead of keeping the last fragment", STDIO, "                buffer = lines[-1]\n",
                   "                buffer = \"\"\n", "C05."),
            Canary("break on a bad line", STDIO,
                   '                    except json.JSONDecodeError as exc:\n                        logger.error("JSON decode error: %s  [line: %.120s]", exc, line)\n',
                   '                    except json.JSONDecodeError as exc:\n                        logger.error("JSON decode error: %s  [line: %.120s]", exc, line)\n                        break\n',
                   "C05."),
            Canary("per-chunk strict decode again", STDIO, "buffer += decoder.decode(chunk)", 'buffer += chunk.decode("utf-8")',
                   "C05."),
            Canary("carried-over fragment is stripped", STDIO, "                buffer = lines[-1]\n",
                   "                buffer = lines[-1].strip()\n", "C05."),
            Canary("bad line aborts the rest of the chunk", STDIO,
                   '                    except json.JSONDecodeError as exc:\n                        logger.error("JSON decode error: %s  [line: %.120s]", exc, line)\n',
                   '                    except json.JSONDecodeError as exc:\n                        logger.error("JSON decode error: %s  [line: %.120s]", exc, line)\n                        lines = lines[:1]\n                        break\n',
                   "C05."),
        ]

    def audits(self, tier):
        def split_audit():
            import itertools
            alpha = ["a", "\n", "\r", "é", " "]
            n = 0
            L = 5 if tier == "thorough" else 4
            for la in range(L + 1):
                for a in itertools.product(alpha, repeat=la):
                    a = "".join(a)
                    for lb in range(L + 1 - la if tier != "thorough" else 4):
                        for b in itertools.product(alpha, repeat=lb):
                            b = "".join(b)
                            n += 1
                            sa = a.split("\n")
                            if (a + b).split("\n") != sa[:-1] + (sa[-1] + b).split("\n"):
                                return AuditResult("split distributes over concatenation (L1)", False, n, repr((a, b)))
            return AuditResult("split distributes over concatenation (L1)", True, n,
                               bound=f"all strings a,b over {alpha!r} with |a|+|b| <= {L}")

        def decoder_audit():
            import codecs
            samples = ["é€😀a\n", "{\"k\": \"naïve — ✓\"}\n", " \u0085x"]
            n = 0
            for s in samples:
                bs = s.encode("utf-8")
                for cut1 in range(len(bs) + 1):
                    for cut2 in range(cut1, len(bs) + 1):
                        d = codecs.getincrementaldecoder("utf-8")(errors="replace")
                        got = d.decode(bs[:cut1]) + d.decode(bs[cut1:cut2]) + d.decode(bs[cut2:])
                        n += 1
                        if got != s:
                            return AuditResult("incremental decoder is chunk independent", False, n, repr((s, cut1, cut2)))
            return AuditResult("incremental decoder is chunk independent", True, n,
                               bound="every pair of cut positions of 3 multi-byte sample texts")
        return [split_audit, decoder_audit]

    def replay(self, name, model, rec):
        return None


    def bounded_stand_in(self, tier, undecided):
        from checks import native
        return native.stand_in(['C05.'], tier, undecided)

CHECK = C05()
