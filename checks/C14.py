"""C14 - deadlines, cancellation and progress behave the same under any traffic."""
from __future__ import annotations

import z3

from pyvc import vals as V
from pyvc.vals import Val
from pyvc import prelude as P
from pyvc import envs as E
from pyvc.check import Check, Canary
from checks import sendmsg as SM
from checks.sendmsg import SendMessageSetup, SEND, AWAIT_KEY

POLL = z3.RealVal("0.5")          # "one polling interval" (the property's 0.5 s polling boundaries)
NOTIF = "src/chuk_mcp/protocol/messages/notifications.py"


class SendMessageC14(SendMessageSetup):
    prop = "C14"
    zero_time_sends = True        # memory-stream sends complete without virtual delay (assumption, listed)
    @property
    def covers(self):
        c = ["return", "raise:TimeoutError"]
        if self.with_token:
            c.append(f"raise:{SM.LIB_CANCELLED}")
        return tuple(c)

    def name(self, clause):
        return f"C14.send_message.{clause}[{self.cfg()}]"

    def setup(self, I):
        self.t_entry = I.st.now
        return super().setup(I)

    # ---- helpers over the (concrete-length) sequence of attempted sends
    def attempted_list(self, I):
        a = self.attempted(I)
        n = z3.simplify(z3.Length(a))
        if not z3.is_int_value(n):
            return None
        return [z3.simplify(a[j]) for j in range(n.as_long())]

    def is_cancel_notification(self, I, m, rid):
        meth, hm = I.get_field(m, "method")
        par, hp = I.get_field(m, "params")
        mid, hi = I.get_field(m, "id")
        rq = z3.Select(Val.dvals(par), z3.StringVal("requestId"))
        return z3.And(hm, meth == V.VStr("notifications/cancelled"), z3.Not(hi), V.is_dict(par),
                      z3.Select(Val.dkeys(par), z3.StringVal("requestId")), rq == rid)

    def is_request(self, I, m):
        mid, hi = I.get_field(m, "id")
        return z3.And(hi, z3.Not(V.is_none(mid)))

    def extra_invariant(self, I, phase, name):
        cl = []
        name = "C14._await_response.loop"
        if self.cb is not None:
            calls = Val.items(E.gfield(I, self.cb, "calls"))
            exp = Val.items(E.gfield(I, self.cb, "expected"))
            cl.append((f"{name}.callback_calls_equal_matching_progress_notifications", calls == exp))
        # the deadline of the CALL bounds the clock - taken from the property (entry time + timeout), not from whatever
        # mechanism the code uses to enforce it (sends before the wait take no virtual time: listed assumption)
        if phase == "entry":
            I.ghost["deadline"] = self.t_entry + self.timeout
            I.ghost["t_wait_start"] = self.t_entry
        cl.append((f"{name}.clock_within_the_calls_deadline", I.st.now <= I.ghost["deadline"]))
        if self.token is not None:
            sent = I.frames[0].vars.get("cancellation_sent")
            if sent is not None:
                # the one-shot flag is only ever set on the way out (immediately before raising)
                cl.append((f"{name}.cancellation_not_yet_sent", sent == V.FALSE))
            # a cancellation that has happened is noticed within one polling interval
            cl.append((f"{name}.pending_cancellation_is_recent",
                       z3.Implies(self.token_cancelled(I), I.st.now <= self.t_cancel(I) + POLL)))
            cl.append((f"{name}.t_cancel_in_the_past", self.t_cancel(I) <= I.st.now))
        if phase == "back":
            # every iteration passes a checkpoint: the deadline and other tasks always get a turn (no spin)
            cl.append((f"{name}.every_iteration_passes_a_checkpoint",
                       z3.BoolVal(I.ghost.get("checkpoints", 0) > I.ghost.get("checkpoints_at_head", 0))))
        return cl

    def common(self, I, outcome):
        """clauses for every way the call can end"""
        rid = self.req_id(I)
        if self.cb is not None:
            calls = Val.items(E.gfield(I, self.cb, "calls"))
            exp = Val.items(E.gfield(I, self.cb, "expected"))
            I.oblige(self.name("callback_invoked_exactly_once_per_matching_progress_in_order"), calls == exp,
                     watch={"calls": V.VList(calls), "expected": V.VList(exp)})
        att = self.attempted_list(I)
        if att is not None and rid is not None:
            ncancel = z3.IntVal(0)
            nreq = z3.IntVal(0)
            for m in att:
                ncancel = ncancel + z3.If(self.is_cancel_notification(I, m, rid), 1, 0)
                nreq = nreq + z3.If(self.is_request(I, m), 1, 0)
            n = len(att)
            if outcome == SM.LIB_CANCELLED:
                I.oblige(self.name("cancellation_emits_exactly_one_cancelled_notification_naming_the_id"),
                         z3.And(ncancel == 1, ncancel + nreq == n))
            else:
                I.oblige(self.name("no_cancelled_notification_without_cancellation"), ncancel == 0)
            I.oblige(self.name("request_sent_at_most_once"), nreq <= 1)
            if self.token is not None:
                I.oblige(self.name("request_cancelled_before_sending_is_never_sent"),
                         z3.Implies(self.cancelled0, nreq == 0))
        I.oblige(self.name("ends_no_later_than_its_timeout"), I.st.now <= self.t_entry + self.timeout,
                 watch={"now": V.VReal(I.st.now), "entered_at": V.VReal(self.t_entry), "timeout": V.VReal(self.timeout)})

    def post(self, I, result):
        self.common(I, "return")

    def post_exc(self, I, e):
        cls = e.cls_name
        self.common(I, cls)
        if cls == SM.LIB_CANCELLED:
            I.oblige(self.name("cancelled_error_only_when_token_triggered"),
                     z3.BoolVal(self.token is not None) if self.token is None else self.token_cancelled(I))
            if I.ghost.get("deadline") is not None:
                I.oblige(self.name("cancellation_noticed_within_one_polling_interval"),
                         I.st.now <= self.t_cancel(I) + POLL,
                         watch={"now": V.VReal(I.st.now), "t_cancel": V.VReal(self.t_cancel(I))})
        if cls == "TimeoutError" and self.token is not None and I.ghost.get("deadline") is not None:
            # a triggered token is not ignored for longer than a polling interval even when the deadline wins
            I.oblige(self.name("deadline_wins_only_within_a_polling_interval_of_cancellation"),
                     z3.Implies(self.token_cancelled(I), I.st.now <= self.t_cancel(I) + POLL))
        if cls == "AnyException":
            I.oblige(self.name("failing_callback_does_not_disturb_the_request"), z3.BoolVal(False))


class C14(Check):
    prop = "C14"
    level = "proof"
    title = ("send_message under a ghost clock: outer deadline bounds the exit time, a triggered token is noticed "
             "within one polling interval, exactly one cancelled notification, callback calls == matching progress "
             "notifications in order, every loop iteration passes a checkpoint")
    design_ref = "section 7, C14"
    trusted = [
        "idealised scheduler contract (DESIGN 3.3): time passes only at awaits; an await inside scopes returns by the "
        "smallest deadline or that scope fires exactly at its deadline; cancellation is level-triggered",
        "memory-stream sends and user callbacks take no virtual time; another task may cancel the token at any "
        "suspension (never un-cancel)",
        "incoming items are batch lists or well-typed message objects (instantiated per delivered item)",
    ]

    def install(self, ctx):
        SM.install(ctx)

    def contracts(self):
        cs = [SendMessageC14(True, True, id_mode="given"), SendMessageC14(True, False, id_mode="given"),
              SendMessageC14(False, True, id_mode="given")]
        if self.tier == "thorough":
            cs += [SendMessageC14(True, True, id_mode="uuid"), SendMessageC14(True, False, id_mode="uuid"),
                   SendMessageC14(False, True, id_mode="uuid"), SendMessageC14(False, False, id_mode="given")]
        return cs

    def loop_invariants(self):
        return {(AWAIT_KEY, 0): SM.await_loop_invariant("C14")}

    def canaries(self):
        return [
            Canary("in-loop cancellation check removed", SEND,
                   "        if cancellation_check:\n            await cancellation_check()\n", "", "C14."),
            Canary("sub_timeout raised to 5 s", SEND, "sub_timeout: float = 0.5", "sub_timeout: float = 5.0",
                   "polling_interval"),
            Canary("callback exception propagates", SEND,
                   "                except Exception as e:\n                    logging.error(f\"Error in progress callback: {e}\")\n",
                   "                except ZeroDivisionError as e:\n                    logging.error(f\"Error in progress callback: {e}\")\n",
                   "C14."),
            Canary("callback invoked without the token test", SEND,
                   "            if params.get(\"progressToken\") == progress_token:", "            if True:",
                   "callback"),
            Canary("poll interval doubles on idle ticks", SEND,
                   "        except TimeoutError:\n            continue  # let outer timer count down",
                   "        except TimeoutError:\n            sub_timeout = min(sub_timeout * 2, 4.0)\n            continue",
                   "C14."),
            Canary("cancelled notification sent twice", SEND,
                   "                await send_cancelled_notification(\n                    write_stream, req_id, \"Cancelled by client\"\n                )\n",
                   "                await send_cancelled_notification(\n                    write_stream, req_id, \"Cancelled by client\"\n                )\n"
                   "                await send_cancelled_notification(\n                    write_stream, req_id, \"Cancelled by client\"\n                )\n",
                   "exactly_one_cancelled"),
            Canary("request sent even though already cancelled", SEND,
                   "    if cancellation_token:\n        await check_and_send_cancellation()\n\n    logging.debug",
                   "    logging.debug", "never_sent"),
        ]

    def replay(self, name, model, rec):
        return None


CHECK = C14()
