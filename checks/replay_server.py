"""Native replays for the server-side properties (C04, C08, C19): the real classes from the tree under
verification are driven with the counter-model's inputs (or, for C19, a small bounded search around the failed
operation) and compared with an oracle written from the property text."""
from __future__ import annotations

import asyncio
import importlib
import itertools
import types


def _mods():
    import logging
    logging.disable(logging.CRITICAL)
    ph = importlib.import_module("chuk_mcp.server.protocol_handler")
    info = importlib.import_module("chuk_mcp.protocol.types.info")
    caps = importlib.import_module("chuk_mcp.protocol.types.capabilities")
    ver = importlib.import_module("chuk_mcp.protocol.types.versioning")
    return ph, info, caps, ver


def _plain(v):
    if isinstance(v, dict):
        if any(k.startswith("$") for k in v):
            return None
        return {k: _plain(x) for k, x in v.items()}
    if isinstance(v, list):
        return [_plain(x) for x in v]
    return v


def _msg(mid, method, params):
    return types.SimpleNamespace(jsonrpc="2.0", id=mid, method=method, params=params)


def replay_c04(name, model, rec):
    params = _plain(model.get("params"))
    candidates = [params] if isinstance(params, (dict, type(None))) else []
    # bounded search around the model: the shapes the property quantifies over
    candidates += [{"protocolVersion": v} for v in ["1999-01-01", "2025-01-01", "2025-03-26-draft", "2024-11-05\n", 7, None,
                                                   "", "2025-06-18", "2024-11-05"]] + [{}, None]
    return c04_run(candidates)


def c04_grid(tier):
    """bounded stand-in for C04: every dddd-dd-dd string of a date grid, the supported versions, near misses of each
    supported version and non-string / absent values"""
    _ph, _info, _caps, ver = _mods()
    sup = list(ver.SUPPORTED_VERSIONS)
    years = range(2020, 2031) if tier == "thorough" else range(2024, 2027)
    vs = [f"{y:04d}-{m:02d}-{d:02d}" for y in years for m in range(0, 14) for d in (0, 1, 5, 18, 26, 28, 31, 99)]
    for v in sup:
        vs += [v, v + " ", " " + v, v + "\n", v[:-1], v + "-draft", v.replace("-", "/"), v.upper(), v[:-1] + chr(ord(v[-1]) + 1)]
    vs += ["", "latest", "1", 7, 7.5, None, True, ["2024-11-05"], {"v": 1}]
    cands = [{"protocolVersion": v} for v in vs] + [{}, None, {"clientInfo": {"name": "c", "version": "1"}}]
    r = c04_run(cands)
    r["cases"] = len(cands)
    r["bound"] = f"{len(cands)} initialize requests: date grid {years.start}..{years.stop - 1}, near misses of every supported version, non-string and absent values (bounded, not a proof)"
    return r


def c04_run(candidates):
    ph, info, caps, ver = _mods()
    sup = list(ver.SUPPORTED_VERSIONS)
    for p in candidates:
        h = ph.ProtocolHandler(info.ServerInfo(name="s", version="1"), caps.ServerCapabilities())
        try:
            resp, sid = asyncio.run(h._handle_initialize(_msg(1, "initialize", p), None))
        except Exception as ex:
            if p is None or isinstance(p, dict):
                return dict(reproduced=True, input=p, observed=repr(ex), required="an initialize result")
            continue
        answered = resp.result.get("protocolVersion")
        requested = (p or {}).get("protocolVersion", None)
        sess = h.session_manager.get_session(sid)
        ok = answered in sup and (requested not in sup or answered == requested) and sess is not None and \
            sess.protocol_version == answered
        if not ok:
            return dict(reproduced=True, input=p, observed=dict(answered=answered, recorded=getattr(sess, "protocol_version", None)),
                        required=f"answered in {sup}, equal to the requested version when supported, and recorded in the session")
    return dict(reproduced=False, tried=len(candidates))


def replay_c08(name, model, rec):
    ph, info, caps, ver = _mods()
    mid, method, params = _plain(model.get("id")), _plain(model.get("method")), _plain(model.get("params"))
    ids = [mid] if isinstance(mid, (int, str)) or mid is None else []
    ids += [0, "", 7, "abc", None]
    methods = [method] if isinstance(method, str) else []
    methods += ["ping", "nope/unknown", "custom/raises", "custom/nonsense", "notifications/cancelled", ""]

    async def raises(m, s):
        raise ValueError("boom")

    async def nonsense(m, s):
        return 42
    for i, me in itertools.product(ids, methods):
        h = ph.ProtocolHandler(info.ServerInfo(name="s", version="1"), caps.ServerCapabilities())
        h.register_method("custom/raises", raises)
        h.register_method("custom/nonsense", nonsense)
        try:
            out = asyncio.run(h.handle_message(_msg(i, me, params if isinstance(params, (dict, type(None))) else None), None))
        except Exception as ex:
            return dict(reproduced=True, input=dict(id=i, method=me), observed=f"raised {ex!r}", required="dispatch never raises")
        ok = isinstance(out, tuple) and len(out) == 2
        if ok:
            resp = out[0]
            if i is None:
                ok = resp is None
            else:
                ok = resp is not None and getattr(resp, "id", None) == i
                if ok and me == "nope/unknown":
                    ok = getattr(resp, "error", None) and resp.error.get("code") == -32601
                if ok and me in ("custom/raises", "custom/nonsense"):
                    ok = getattr(resp, "error", None) and resp.error.get("code") == -32603
        if not ok:
            return dict(reproduced=True, input=dict(id=i, method=me), observed=repr(out)[:300],
                        required="one response with the request id (-32601 unknown, -32603 failing handler), none for a notification")
    return dict(reproduced=False)


class _Clock:
    def __init__(self):
        self.t = 1000.0

    def time(self):
        return self.t


def replay_c19(name, model, rec):
    """bounded native search: all operation sequences of length <= 4 over a 2-session universe against a reference map"""
    mem = importlib.import_module("chuk_mcp.server.session.memory")
    clock = _Clock()
    real_time = mem.time
    mem.time = clock
    try:
        ops = ["create", "get", "update", "delete", "cleanup0", "cleanup5", "list", "count", "clear", "tick3", "tick7"]
        for seq in itertools.product(ops, repeat=3):
            clock.t = 1000.0
            mgr = mem.InMemorySessionManager()
            ref = {}
            ids = []
            for op in seq:
                if op == "create":
                    sid = mgr.create_session({"n": len(ids)}, "2025-03-26")
                    if sid in ref or not isinstance(sid, str):
                        return dict(reproduced=True, input=seq, observed=f"create returned {sid!r}", required="a fresh string id")
                    ref[sid] = dict(info={"n": len(ids)}, ver="2025-03-26", created=clock.t, last=clock.t)
                    ids.append(sid)
                elif op.startswith("tick"):
                    clock.t += int(op[4:])
                    continue
                else:
                    sid = ids[0] if ids else "missing"
                    if op == "get":
                        got = mgr.get_session(sid)
                        if (got is None) != (sid not in ref):
                            return dict(reproduced=True, input=seq, observed=repr(got), required="record iff present")
                    elif op == "update":
                        r = mgr.update_activity(sid)
                        if r != (sid in ref):
                            return dict(reproduced=True, input=seq, observed=r, required=sid in ref)
                        if sid in ref:
                            ref[sid]["last"] = clock.t
                    elif op == "delete":
                        r = mgr.delete_session(sid)
                        if r != (sid in ref):
                            return dict(reproduced=True, input=seq, observed=r, required=sid in ref)
                        ref.pop(sid, None)
                    elif op.startswith("cleanup"):
                        age = int(op[7:])
                        exp = [k for k, v in ref.items() if clock.t - v["last"] > age]
                        r = mgr.cleanup_expired(age)
                        for k in exp:
                            del ref[k]
                        if r != len(exp):
                            return dict(reproduced=True, input=seq, observed=f"cleanup_expired({age}) returned {r}",
                                        required=f"{len(exp)} (sessions idle strictly longer than {age})")
                    elif op == "list":
                        l = mgr.list_sessions()
                        l["intruder"] = None
                        if "intruder" in mgr.sessions:
                            return dict(reproduced=True, input=seq, observed="listing aliases the store", required="a copy")
                    elif op == "count":
                        if mgr.get_session_count() != len(ref):
                            return dict(reproduced=True, input=seq, observed=mgr.get_session_count(), required=len(ref))
                    elif op == "clear":
                        r = mgr.clear_all_sessions()
                        if r != len(ref):
                            return dict(reproduced=True, input=seq, observed=r, required=len(ref))
                        ref.clear()
                # whole-map comparison after every operation
                if set(mgr.sessions) != set(ref):
                    return dict(reproduced=True, input=seq, observed=sorted(mgr.sessions), required=sorted(ref))
                for k, v in ref.items():
                    s = mgr.sessions[k]
                    if (s.last_activity, s.created_at, s.protocol_version, s.client_info) != (v["last"], v["created"], v["ver"], v["info"]):
                        return dict(reproduced=True, input=seq, observed=(s.last_activity, s.created_at),
                                    required=(v["last"], v["created"]))
        return dict(reproduced=False, bound="all operation sequences of length 3 over 11 operations")
    finally:
        mem.time = real_time
