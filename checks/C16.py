"""C16 - stdio client shutdown is bounded and leaves no child process behind."""
from __future__ import annotations

import z3

from pyvc import vals as V
from pyvc.vals import Val
from pyvc import envs as E
from pyvc.core import PyRaise
from pyvc.check import Check, Canary
from pyvc.verify import Contract
from checks import stdio as ST
from checks.stdio import STDIO

GRACE = z3.RealVal(2)          # the two one-second grace periods


class CancelScopeHandle(E.EnvClass):
    name = "TGCancelScope"

    def __init__(self):
        self.methods = {"cancel": lambda I, r, a, k: V.NONE}


class TaskGroupEnv(E.EnvClass):
    """anyio task group at exit: after cancel_scope.cancel() the child tasks end at their next checkpoint
    (assumed: none of their awaits is shielded - obligation 'blocking_awaits_are_cancellable' below); __aexit__
    returns, raises an exception group from the tasks, some Exception, or - under an enclosing cancelled scope -
    the cancellation."""
    name = "TaskGroup"

    def __init__(self):
        self.methods = {"__aexit__": E.is_async(self.aexit)}

    def aexit(self, I, recv, args, kwargs, exc=None):
        c = I.choose_n(4, "tg_exit")
        if c == 0:
            E.checkpoint_nofire(I)
            return V.FALSE
        if c == 1:
            E.checkpoint_mustfire(I)                     # enclosing cancellation delivered while waiting
        E.checkpoint_nofire(I)
        if c == 2:
            excs = I.fresh("group_exceptions", V.SeqVal)
            ev = I.make_exc("BaseExceptionGroup", V.VStr("unhandled errors in a TaskGroup"))
            I.set_attr(ev, "exceptions", V.VList(excs), record=False)
            raise PyRaise(ev, "BaseExceptionGroup")
        raise PyRaise(I.make_exc("AnyException", V.VStr(I.fresh("tgmsg", z3.StringSort()))), "AnyException")


TG = TaskGroupEnv()
TG_SCOPE = CancelScopeHandle()


def external_scope(I):
    """an enclosing cancel scope of the caller (move_on_after / task cancellation): may fire at any checkpoint"""
    rec = dict(kind="external", external=True, deadline=None, shield=False, cancelled=False)
    I.st.scopes.append(rec)
    return rec


class TerminateProcess(Contract):
    key = f"{STDIO}::StdioClient._terminate_process"
    prop = "C16"

    def __init__(self, external):
        self.external = external

    def name(self, clause):
        return f"C16._terminate_process.{clause}[{'cancellable' if self.external else 'shielded'}]"

    @property
    def covers(self):
        return ("return", "raise:CancelledError") if self.external else ("return",)

    def setup(self, I):
        if self.external:
            self.ext = external_scope(I)
        self.proc, out, inn, _ = ST.make_process(I, running=False)
        self.client = ST.make_client(I, process=self.proc, streams=False)
        self.t0 = I.st.now
        return [self.client], {}

    def child_gone_or_killed(self, I):
        rc = E.gfield(I, self.proc, "returncode")
        return z3.Or(z3.Not(V.is_none(rc)),
                     z3.And(V.truthy(E.gfield(I, self.proc, "term_sent")), V.truthy(E.gfield(I, self.proc, "kill_sent"))))

    def post(self, I, result):
        rc = E.gfield(I, self.proc, "returncode")
        I.oblige(self.name("child_has_exited_afterwards"), z3.Not(V.is_none(rc)))
        I.oblige(self.name("returns_within_the_two_grace_periods"), I.st.now <= self.t0 + GRACE,
                 watch={"elapsed": V.VReal(I.st.now - self.t0)})

    def post_exc(self, I, e):
        ok = self.external and e.cls_name == "CancelledError"
        I.oblige(self.name(f"never_raises_except_enclosing_cancellation[{e.cls_name}]"), z3.BoolVal(ok))


class AExit(Contract):
    key = f"{STDIO}::StdioClient.__aexit__"
    prop = "C16"

    def __init__(self, mode):
        self.mode = mode            # normal | body_exception | cancelled

    def name(self, clause):
        return f"C16.__aexit__.{clause}[{self.mode}]"

    @property
    def covers(self):
        return ("return", "raise:CancelledError") if self.mode == "cancelled" else ("return",)

    def setup(self, I):
        if self.mode == "cancelled":
            self.ext = external_scope(I)
        self.proc, out, inn, _ = ST.make_process(I, running=False)
        self.client = ST.make_client(I, process=self.proc, streams=True)
        scope = E.new_env_object(I, TG_SCOPE)
        tg = E.new_env_object(I, TG, cancel_scope=scope)
        I.set_attr(self.client, "tg", tg, record=False)
        self.t0 = I.st.now
        if self.mode == "body_exception":
            ev = I.make_exc("AnyException", V.VStr("body failed"))
            return [self.client, V.VCls(I.ctx.cls_named("AnyException").cid), ev, V.NONE], {}
        return [self.client, V.NONE, V.NONE, V.NONE], {}

    def no_child_left(self, I):
        rc = E.gfield(I, self.proc, "returncode")
        return z3.Not(V.is_none(rc))

    def post(self, I, result):
        I.oblige(self.name("no_child_left_running"), self.no_child_left(I))
        I.oblige(self.name("never_swallows_the_body_exception"), result == V.FALSE)

    def post_exc(self, I, e):
        ok = self.mode == "cancelled" and e.cls_name == "CancelledError"
        I.oblige(self.name(f"only_the_enclosing_cancellation_escapes[{e.cls_name}]"), z3.BoolVal(ok))
        I.oblige(self.name("no_child_left_running_even_when_cancelled"), self.no_child_left(I))


class CancellableWriter(Contract):
    """the writer task must stay cancellable while it is blocked on the child's stdin (a child that never reads
    must not be able to hang shutdown): no blocking pipe operation happens inside a shielded scope"""
    key = f"{STDIO}::StdioClient._stdin_writer"
    prop = "C16"
    covers = ("return",)

    def setup(self, I):
        from checks.C06 import StdinWriter, TrackingStdin
        self.inner = StdinWriter()
        args, kwargs = self.inner.setup(I)
        def on_write(I2, data):
            shielded = any(s.get("shield") for s in I2.st.scopes)
            I2.oblige("C16._stdin_writer.blocking_pipe_write_is_cancellable", z3.BoolVal(not shielded))
        self.inner.on_write = on_write
        return args, kwargs

    def post(self, I, result):
        pass

    def post_exc(self, I, e):
        pass


TRANSPORT = "src/chuk_mcp/transports/stdio/transport.py"


class EnteringTaskGroup(E.EnvClass):
    """anyio task group while the client is being entered: __aenter__ does not yield (read from the installed anyio:
    it only enters the group's cancel scope), start_soon schedules"""
    name = "TaskGroupAtEnter"

    def __init__(self):
        self.methods = {"__aenter__": E.is_async(lambda I, r, a, k: r), "start_soon": lambda I, r, a, k: V.NONE,
                        "__aexit__": E.is_async(lambda I, r, a, k, exc=None: V.FALSE)}


TG_ENTER = EnteringTaskGroup()


class AEnterCancelled(Contract):
    """StdioClient.__aenter__ under a cancellation of the caller delivered at any of its awaits: once the child exists,
    entering either completes (the context then owns the child and __aexit__ ends it) or does not leave the child
    running - there is no cancellation point between the spawn and the return."""
    key = f"{STDIO}::StdioClient.__aenter__"
    prop = "C16"
    covers = ("return", "raise:CancelledError")

    def setup(self, I):
        self.ext = external_scope(I)
        self.spawned = []
        ctx = I.ctx

        def open_process(I2, args, kwargs, node):
            E.checkpoint(I2, "open_process")                       # cancellable until the child exists
            if I2.choose_n(2, "open_process_outcome") == 1:
                I2.throw("FileNotFoundError", "No such file or directory")
            proc, _o, _i, _c = ST.make_process(I2, running=True)
            self.spawned.append(proc)
            return proc
        ctx.extern_handlers["anyio.open_process"] = E.is_async(open_process)
        ctx.extern_handlers["anyio.create_task_group"] = lambda I2, a, k, n: E.new_env_object(I2, TG_ENTER)

        def sleep(I2, args, kwargs, node):
            E.checkpoint(I2, "sleep")
            return V.NONE
        ctx.extern_handlers["anyio.sleep"] = E.is_async(sleep)
        ctx.env_class(TG_ENTER)
        cmd = I.fresh("command")
        I.assume(z3.And(V.is_str(cmd), z3.Length(Val.s(cmd)) > 0))
        env = I.fresh("env")
        I.assume(z3.And(V.is_dict(env), Val.dsize(env) >= 1))
        for k in ("LOG_LEVEL", "LOGGING_LEVEL"):
            I.assume(z3.Implies(z3.Select(Val.dkeys(env), z3.StringVal(k)), V.is_str(z3.Select(Val.dvals(env), z3.StringVal(k)))))
        from pyvc import pyd
        p = I.new_object(ST.klass(I, f"{ST.PARAMS}::StdioParameters"),
                         {"command": cmd, "args": V.VList([]), "env": env, pyd.EXTRA: V.VDict([])})
        self.client = I.instantiate(ST.klass(I, f"{STDIO}::StdioClient"), [p], {}, None)
        return [self.client], {}

    def post_exc(self, I, e):
        if e.cls_name == "CancelledError":
            left = [z3.Not(V.is_none(E.gfield(I, pr, "returncode"))) for pr in self.spawned]
            I.oblige(self.name("a_cancelled_enter_leaves_no_child_running"), z3.And(left) if left else z3.BoolVal(True))




class ClientEnterModular(Contract):
    """call-site form of StdioClient.__aenter__ (spawn verified in C20): the client is entered, or the spawn failure
    (any Exception) propagates"""
    key = f"{STDIO}::StdioClient.__aenter__"

    def apply(self, I, args, kwargs, node):
        E.checkpoint_nofire(I)
        if I.choose_n(2, "client_enter") == 1:
            I.ghost["client_enter_failed"] = True
            raise PyRaise(I.make_exc("AnyException", V.VStr("cannot start the command")), "AnyException")
        I.ghost["client_entered"] = I.ghost.get("client_entered", 0) + 1
        return args[0]


class ClientExitModular(Contract):
    """call-site form of StdioClient.__aexit__ (proved above): shuts the client down, never swallows the body's exception"""
    key = f"{STDIO}::StdioClient.__aexit__"

    def apply(self, I, args, kwargs, node):
        E.checkpoint_nofire(I)
        I.ghost["client_exits"] = I.ghost.get("client_exits", 0) + 1
        I.ghost["client_exit_args"] = list(args[1:])
        return V.FALSE


class TransportEnter(Contract):
    """StdioTransport.__aenter__: returns the transport with an entered client; a command that cannot be started makes
    entering raise (the failure is not swallowed)"""
    key = f"{TRANSPORT}::StdioTransport.__aenter__"
    prop = "C16"
    covers = ("return", "raise:AnyException")

    def setup(self, I):
        cmd = I.fresh("command")
        I.assume(z3.And(V.is_str(cmd), z3.Length(Val.s(cmd)) > 0))
        from pyvc import pyd
        p = I.new_object(ST.klass(I, f"{ST.PARAMS}::StdioParameters"),
                         {"command": cmd, "args": V.VList([]), "env": V.NONE, pyd.EXTRA: V.VDict([])})
        self.transport = I.new_object(ST.klass(I, f"{TRANSPORT}::StdioTransport"), {"parameters": p, "_client": V.NONE})
        return [self.transport], {}

    def post(self, I, result):
        I.oblige(self.name("a_command_that_cannot_be_started_makes_entering_raise"),
                 z3.BoolVal(not I.ghost.get("client_enter_failed")))
        I.oblige(self.name("returns_the_transport_with_one_entered_client"),
                 z3.And(result == self.transport, z3.BoolVal(I.ghost.get("client_entered", 0) == 1)))

    def post_exc(self, I, e):
        I.oblige(self.name(f"raises_only_the_clients_own_failure[{e.cls_name}]"),
                 z3.BoolVal(e.cls_name == "CancelledError" or (e.cls_name == "AnyException" and bool(I.ghost.get("client_enter_failed")))))


class TransportExit(Contract):
    """StdioTransport.__aexit__: shuts its client down exactly once, handing on the exit details, and does not swallow
    the body's exception"""
    key = f"{TRANSPORT}::StdioTransport.__aexit__"
    prop = "C16"
    covers = ("return",)

    def setup(self, I):
        ccd = ST.klass(I, f"{STDIO}::StdioClient")
        self.client = I.new_object(ccd, {})
        self.transport = I.new_object(ST.klass(I, f"{TRANSPORT}::StdioTransport"), {"_client": self.client})
        self.exc = [I.fresh("exc_type"), I.fresh("exc_val"), I.fresh("exc_tb")]
        return [self.transport, *self.exc], {}

    def post(self, I, result):
        I.oblige(self.name("client_shut_down_exactly_once"), z3.BoolVal(I.ghost.get("client_exits", 0) == 1))
        a = I.ghost.get("client_exit_args") or [None, None, None]
        I.oblige(self.name("exit_details_handed_on"), z3.And(*[x == y for x, y in zip(a, self.exc)]) if a[0] is not None else z3.BoolVal(False))
        I.oblige(self.name("body_exception_not_swallowed"), z3.Not(V.truthy(result)))


class C16(Check):
    prop = "C16"
    level = "other"
    title = ("control skeleton and time bound of stdio shutdown proved over a Process environment and the ghost "
             "clock: _terminate_process ends with the child exited within the two grace periods; __aexit__ leaves no "
             "child on every exit path including cancellation at any of its awaits; OS effects are assumed")
    design_ref = "section 7, C16"
    trusted = ["OS/runtime: SIGKILL ends the child, wait() then returns and asyncio reaps it and closes the pipe fds "
               "(assumed; not within reach of a contract on /repo code)",
               "task group exit: cancelled child tasks end at their next checkpoint (none shielded: checked for the "
               "writer); ghost clock as in C14",
               "the pending-request clause (no fabricated result when the child dies) is C01's: no return without a "
               "matching response; the spawn-failure clause is C20's"]

    def install(self, ctx):
        ST.install(ctx)
        for e in (TG, TG_SCOPE):
            ctx.env_class(e)
        from checks import C06
        ctx.dynamic_call_hook = C06.dynamic_call

    def modular(self):
        return {f"{ST.FASTJSON}::dumps": ST.DumpsModular(), f"{STDIO}::StdioClient.__aenter__": ClientEnterModular(),
                f"{STDIO}::StdioClient.__aexit__": ClientExitModular()}

    def contracts(self):
        return [TerminateProcess(False), TerminateProcess(True), AExit("normal"), AExit("body_exception"),
                AExit("cancelled"), CancellableWriter(), TransportEnter(), TransportExit(), AEnterCancelled()]

    def loop_invariants(self):
        from checks import C06
        return {(f"{STDIO}::StdioClient._stdin_writer", 0): C06.loop_inv}

    def canaries(self):
        return [
            Canary("kill() fallback removed", STDIO, "                    self.process.kill()\n", "                    pass\n",
                   "child_has_exited"),
            Canary("grace period raised to 10 s", STDIO, "                    with anyio.fail_after(1.0):\n                        await self.process.wait()\n                except TimeoutError:\n                    # Changed from WARNING",
                   "                    with anyio.fail_after(10.0):\n                        await self.process.wait()\n                except TimeoutError:\n                    # Changed from WARNING", "two_grace_periods"),
            Canary("shield dropped from the final termination", STDIO, "with anyio.CancelScope(shield=True):", "with anyio.CancelScope():",
                   "even_when_cancelled"),
            Canary("final termination bounded by move_on_after(1.0)", STDIO, "with anyio.CancelScope(shield=True):",
                   "with anyio.move_on_after(1.0, shield=True):", "no_child_left"),
            Canary("finally block removed", STDIO,
                   "        finally:\n            # Never leave the child behind, even when shutdown itself is cancelled\n            if self.process and self.process.returncode is None:",
                   "        finally:\n            if False:", "even_when_cancelled"),
            Canary("writer send shielded", STDIO,
                   '                    await self.process.stdin.send(f"{json_str}\\n".encode())\n\n                    # Enhanced',
                   '                    with anyio.CancelScope(shield=True):\n                        await self.process.stdin.send(f"{json_str}\\n".encode())\n\n                    # Enhanced',
                   "cancellable"),
        ]

    def replay(self, name, model, rec):
        return None


CHECK = C16()
