"""C07 helper obligations: for every typed request helper (discovered by walking protocol/messages/**/send_messages.py)
an error raised by send_message is either propagated unchanged, or - for the three documented boolean wrappers -
reported as False."""
from __future__ import annotations

import ast
import os

import z3

from pyvc import vals as V
from pyvc.vals import Val
from pyvc import envs as E
from pyvc.verify import Contract
from pyvc.loader import Repo
from checks import sendmsg as SM

BOOL_WRAPPERS = {"send_ping", "send_resources_subscribe", "send_resources_unsubscribe"}
MSGS = "src/chuk_mcp/protocol/messages"
# helpers whose error handling is specified by another property
OTHER_PROPERTY = {"send_initialize": "C03 (may raise the documented VersionMismatchError instead)",
                  "send_initialize_with_client_tracking": "C03", "send_initialized_notification": "not a request"}


def discover(repo: Repo):
    out = []
    base = os.path.join(repo.root, MSGS)
    for d, _, files in sorted(os.walk(base)):
        for f in sorted(files):
            if f != "send_messages.py":
                continue
            rel = os.path.relpath(os.path.join(d, f), repo.root)
            mi = repo.load_path(rel)
            for name, fi in sorted(mi.functions.items()):
                if not fi.is_async or not name.startswith("send_"):
                    continue
                calls = [n for n in ast.walk(fi.node) if isinstance(n, ast.Call) and isinstance(n.func, ast.Name)
                         and n.func.id == "send_message"]
                if calls:
                    out.append(fi)
    return out


class Helper(Contract):
    prop = "C07"

    def __init__(self, fi):
        self.key = fi.key
        self.fn = fi.name
        self.fi = fi
        self.covers = ("return",) if fi.name in BOOL_WRAPPERS else (f"raise:{SM.RETRYABLE_CLS}", f"raise:{SM.NONRETRYABLE_CLS}")

    def setup(self, I):
        I.callsite_prefix = f"C07.{self.fn}"
        rs, ws = E.make_read_stream(I, "rs"), E.make_write_stream(I, "ws")
        a = self.fi.node.args
        params = a.posonlyargs + a.args
        nd = len(a.defaults)
        args = []
        for k, p in enumerate(params):
            if p.arg == "read_stream":
                args.append(rs)
            elif p.arg == "write_stream":
                args.append(ws)
            elif k >= len(params) - nd:
                break                                   # leave defaults
            else:
                v = I.fresh(p.arg)
                ann = ast.unparse(p.annotation) if p.annotation is not None else ""
                if ann == "str" or ann.startswith("Dict") or ann == "dict" or ann in ("list", "List[str]", "List[Dict[str, Any]]"):
                    self.structured = getattr(self, "structured", []) + [(p.arg, v)]
                if ann == "str":
                    I.assume(V.is_str(v))
                elif ann.startswith("Dict") or ann == "dict":
                    I.assume(z3.And(V.is_dict(v), Val.dsize(v) >= 0))
                elif ann.startswith("List") or ann == "list":
                    I.assume(V.is_list(v))
                elif ann == "int":
                    I.assume(V.is_int(v))
                args.append(v)
        return args, {}

    def post(self, I, result):
        if self.fn in BOOL_WRAPPERS:
            I.oblige(self.name("error_response_is_reported_as_false_not_raised"), result == V.FALSE)
        else:
            I.oblige(self.name("error_response_never_completes_the_call_normally"), z3.BoolVal(False))

    def sent_unchanged(self, I):
        """C02 (emitted requests carry what the caller gave): every str / dict / list argument of the helper is a member
        of the request params, unchanged (same entries; for a dict the identity tag is irrelevant)"""
        from pyvc import prelude as P
        params = I.ghost.get("sent_params")
        if params is None or V.ctor_name(z3.simplify(params)) != "dict":
            return
        keys = P.concrete_keys(z3.simplify(params))
        if keys is None:
            return
        for nm, a in getattr(self, "structured", []):
            alts = []
            for k in keys:
                pv = z3.simplify(z3.Select(Val.dvals(params), z3.StringVal(k)))
                same_dict = z3.And(V.is_dict(pv), V.is_dict(a), Val.dkeys(pv) == Val.dkeys(a), Val.dvals(pv) == Val.dvals(a),
                                   Val.dsize(pv) == Val.dsize(a))
                alts.append(z3.Or(pv == a, same_dict))
            # an empty dict / list / str may legitimately be normalised away or defaulted
            nonempty = z3.Or(z3.And(V.is_dict(a), Val.dsize(a) >= 1), z3.And(V.is_list(a), z3.Length(Val.items(a)) >= 1),
                             z3.And(V.is_str(a), z3.Length(Val.s(a)) >= 1))
            I.oblige(self.name(f"argument_{nm}_reaches_the_request_params_unchanged"),
                     z3.Implies(nonempty, z3.Or(alts) if alts else z3.BoolVal(False)), watch={"argument": a, "params": params})

    def post_exc(self, I, e):
        raised = I.ghost.get("send_message_raised")
        if raised is None:
            return            # failed before the request was issued (malformed arguments): not an error response
        self.sent_unchanged(I)
        if self.fn in BOOL_WRAPPERS:
            I.oblige(self.name(f"boolean_wrapper_never_raises_for_an_error_response[{e.cls_name.split('.')[-1]}]"),
                     z3.BoolVal(False))
            return
        I.oblige(self.name("propagates_the_classified_exception_unchanged"), e.val == raised)


def contracts():
    repo = Repo()
    return [Helper(fi) for fi in discover(repo) if fi.name not in OTHER_PROPERTY]


def modular():
    return {SM.SEND_KEY: SM.SendMessageModular(outcomes=("retryable", "nonretryable"))}
