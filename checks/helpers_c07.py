"""C07 helper obligations (boolean wrappers / propagation) - filled in once send_message's contract exists."""


def contracts():
    return []


def modular():
    return {}
