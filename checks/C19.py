"""C19 - server session bookkeeping behaves like a map from unique ids to records."""
from __future__ import annotations

import z3

from pyvc import vals as V
from pyvc.vals import Val
from pyvc import prelude as P
from pyvc import envs as E
from pyvc.check import Check, Canary, Lemma, AuditResult
from pyvc.verify import Contract

MEM = "src/chuk_mcp/server/session/memory.py"
BASE = "src/chuk_mcp/server/session/base.py"
FIELDS = ("session_id", "client_info", "protocol_version", "created_at", "last_activity", "metadata")


def S(x):
    return z3.StringVal(x) if isinstance(x, str) else x


class MapView:
    """Abstract view of an InMemorySessionManager: sessions = dict D (id -> record object); a record's
    content is read through the heap.  well_formed() is the representation invariant; it is a
    universally quantified statement that is used (and re-established) through ground instances at
    the keys an obligation talks about."""

    def manager(self, I):
        cd = I.ctx.repo_class(I.ctx.repo.klass(f"{MEM}::InMemorySessionManager"))
        D = I.fresh("sessions")
        I.assume(V.is_dict(D))
        I.assume(Val.dsize(D) >= 0)
        # identity tags of dicts that exist before the call are "old" (fresh ones are >= 10^6)
        I.assume(z3.And(Val.did(D) > 0, Val.did(D) < 1_000_000))
        self.D = D
        self.mgr = I.new_object(cd, {"sessions": D})
        self.info_cls = I.ctx.repo_class(I.ctx.repo.klass(f"{BASE}::SessionInfo"))
        self.entry_heap = None
        I.c19 = self
        return self.mgr

    def wf_at(self, I, D, k, heap=None):
        """ground instance of well_formed at key k: a present key maps to a live SessionInfo object created
        before this call, whose session_id is the key and which has all record fields."""
        rec = z3.Select(Val.dvals(D), k)
        o = Val.oid(rec)
        conds = [V.is_obj(rec), o > 0, o < 1_000_000, z3.Select(I.st.cls, o) == self.info_cls.cid]
        for f in FIELDS:
            h, a = I.st.field(f)
            conds.append(z3.Select(a, o))
        h, a = I.st.field("session_id")
        conds.append(z3.Select(h, o) == V.VStr(k))
        h, a = I.st.field("last_activity")
        conds.append(V.is_real(z3.Select(h, o)))
        return z3.Implies(z3.Select(Val.dkeys(D), k), z3.And(conds))

    def wf_pair(self, D, k1, k2):
        """ground instance of injectivity: distinct present keys refer to distinct record objects"""
        return z3.Implies(z3.And(k1 != k2, z3.Select(Val.dkeys(D), k1), z3.Select(Val.dkeys(D), k2)),
                          z3.Select(Val.dvals(D), k1) != z3.Select(Val.dvals(D), k2))

    def snapshot(self, I):
        self.entry_heap = {f: I.st.field(f)[0] for f in FIELDS}
        self.entry_has = {f: I.st.field(f)[1] for f in FIELDS}
        self.entry_now = I.st.now

    def cur(self, I):
        v, has = I.get_field(self.mgr, "sessions")
        return v

    def record_unchanged(self, I, D, k):
        """the record stored under k has the same content as on entry (all six fields)"""
        rec = z3.Select(Val.dvals(D), k)
        o = Val.oid(rec)
        cs = []
        for f in FIELDS:
            h, a = I.st.field(f)
            cs.append(z3.Select(h, o) == z3.Select(self.entry_heap[f], o))
        return z3.And(cs)

    def other_keys_unchanged(self, I, D0, D1, k_touched, q):
        """for the arbitrary key q != k_touched: presence, record identity and record content unchanged"""
        return z3.Implies(q != k_touched,
                          z3.And(z3.Select(Val.dkeys(D1), q) == z3.Select(Val.dkeys(D0), q),
                                 z3.Implies(z3.Select(Val.dkeys(D0), q),
                                            z3.And(z3.Select(Val.dvals(D1), q) == z3.Select(Val.dvals(D0), q),
                                                   self.record_unchanged(I, D0, q)))))


class Base(Contract, MapView):
    prop = "C19"

    def std_setup(self, I, sid_name="sid"):
        mgr = self.manager(I)
        self.sid = I.fresh(sid_name, z3.StringSort())
        self.q = I.fresh("anykey", z3.StringSort())        # the universally quantified 'other key'
        for k in (self.sid, self.q):
            I.assume(self.wf_at(I, self.D, k))
        I.assume(self.wf_pair(self.D, self.sid, self.q))
        self.snapshot(I)
        return mgr


class GetSession(Base):
    key = f"{MEM}::InMemorySessionManager.get_session"

    def setup(self, I):
        mgr = self.std_setup(I)
        return [mgr, V.VStr(self.sid)], {}

    def post(self, I, result):
        D = self.D
        I.oblige(self.name("returns_record_or_none"),
                 result == z3.If(z3.Select(Val.dkeys(D), self.sid), z3.Select(Val.dvals(D), self.sid), V.NONE))
        I.oblige(self.name("pure_store_unchanged"), z3.And(self.cur(I) == D, self.record_unchanged(I, D, self.q)))


class UpdateActivity(Base):
    key = f"{MEM}::InMemorySessionManager.update_activity"

    def setup(self, I):
        mgr = self.std_setup(I)
        return [mgr, V.VStr(self.sid)], {}

    def post(self, I, result):
        D, D1 = self.D, self.cur(I)
        present = z3.Select(Val.dkeys(D), self.sid)
        I.oblige(self.name("returns_whether_session_existed"), result == V.VBool(present))
        I.oblige(self.name("mapping_unchanged"), z3.And(Val.dkeys(D1) == Val.dkeys(D), Val.dvals(D1) == Val.dvals(D),
                                                        Val.dsize(D1) == Val.dsize(D)))
        rec = z3.Select(Val.dvals(D), self.sid)
        o = Val.oid(rec)
        la, _ = I.st.field("last_activity")
        others = [z3.Select(I.st.field(f)[0], o) == z3.Select(self.entry_heap[f], o) for f in FIELDS
                  if f != "last_activity"]
        t = z3.Select(la, o)
        I.oblige(self.name("touches_only_last_activity_with_current_time"),
                 z3.Implies(present, z3.And(V.is_real(t), Val.r(t) >= self.entry_now, Val.r(t) <= I.st.now, *others)))
        I.oblige(self.name("absent_id_changes_nothing"),
                 z3.Implies(z3.Not(present), self.record_unchanged(I, D, self.q)))
        I.oblige(self.name("other_sessions_untouched"), self.other_keys_unchanged(I, D, D1, self.sid, self.q))


class DeleteSession(Base):
    key = f"{MEM}::InMemorySessionManager.delete_session"

    def setup(self, I):
        mgr = self.std_setup(I)
        return [mgr, V.VStr(self.sid)], {}

    def post(self, I, result):
        D, D1 = self.D, self.cur(I)
        present = z3.Select(Val.dkeys(D), self.sid)
        I.oblige(self.name("returns_whether_session_existed"), result == V.VBool(present))
        I.oblige(self.name("id_absent_afterwards"), z3.Not(z3.Select(Val.dkeys(D1), self.sid)))
        I.oblige(self.name("count_drops_by_one_iff_existed"),
                 Val.dsize(D1) == Val.dsize(D) - z3.If(present, 1, 0))
        I.oblige(self.name("other_sessions_untouched"), self.other_keys_unchanged(I, D, D1, self.sid, self.q))
        I.oblige(self.name("well_formed_preserved"), self.wf_pair(D1, self.q, self.sid))


class SessionCount(Base):
    key = f"{MEM}::InMemorySessionManager.get_session_count"

    def setup(self, I):
        return [self.std_setup(I)], {}

    def post(self, I, result):
        I.oblige(self.name("is_map_size"), result == V.VInt(Val.dsize(self.D)))
        I.oblige(self.name("pure_store_unchanged"), z3.And(self.cur(I) == self.D,
                                                           self.record_unchanged(I, self.D, self.q)))


class ListSessions(Base):
    key = f"{MEM}::InMemorySessionManager.list_sessions"

    def setup(self, I):
        return [self.std_setup(I)], {}

    def post(self, I, result):
        D = self.D
        I.oblige(self.name("same_content"), z3.And(V.is_dict(result), Val.dkeys(result) == Val.dkeys(D),
                                                   Val.dvals(result) == Val.dvals(D),
                                                   Val.dsize(result) == Val.dsize(D)))
        I.oblige(self.name("is_a_copy_not_the_store_itself"), Val.did(result) != Val.did(D))
        I.oblige(self.name("pure_store_unchanged"), z3.And(self.cur(I) == D, self.record_unchanged(I, D, self.q)))


class ClearAll(Base):
    key = f"{MEM}::InMemorySessionManager.clear_all_sessions"

    def setup(self, I):
        return [self.std_setup(I)], {}

    def post(self, I, result):
        D1 = self.cur(I)
        I.oblige(self.name("returns_previous_count"), result == V.VInt(Val.dsize(self.D)))
        I.oblige(self.name("store_empty_afterwards"),
                 z3.And(Val.dsize(D1) == 0, z3.Not(z3.Select(Val.dkeys(D1), self.q))))


def c19_uuid4(I, args, kwargs, node):
    """uuid4 with the freshness assumption made explicit: the id derived from the new uuid is not a key of
    the session store (uuid4 has 122 random bits; replace('-', '') is injective on canonical uuid strings
    - lemma C19.lemma.dash_removal_injective)."""
    u = E.x_uuid4(I, args, kwargs, node)
    chars = I.uuids[-1]
    sid = P.from_chars([c for c in chars if not isinstance(c, str)])
    c19 = getattr(I, "c19", None)
    if c19 is not None:
        D, _ = I.get_field(c19.mgr, "sessions")
        I.assume(z3.Not(z3.Select(Val.dkeys(D), sid)))
        I.ctx.assumptions.add("uuid4 freshness: the id derived from a new uuid4 is not already a key of the store")
    return u


class CreateSession(Base):
    key = f"{MEM}::InMemorySessionManager.create_session"

    def __init__(self, with_metadata):
        self.with_metadata = with_metadata

    def setup(self, I):
        mgr = self.std_setup(I)
        self.ci = I.fresh("client_info")
        self.pv = I.fresh("protocol_version")
        self.md = I.fresh("metadata")
        I.assume(V.is_dict(self.md) if self.with_metadata else V.is_none(self.md))
        return [mgr, self.ci, self.pv, self.md], {}

    def post(self, I, result):
        D, D1 = self.D, self.cur(I)
        I.oblige(self.name("returns_a_string_id"), V.is_str(result))
        rid = Val.s(result)
        I.oblige(self.name("id_is_new"), z3.Not(z3.Select(Val.dkeys(D), rid)))
        I.oblige(self.name("exactly_one_session_added"),
                 z3.And(z3.Select(Val.dkeys(D1), rid), Val.dsize(D1) == Val.dsize(D) + 1))
        rec = z3.Select(Val.dvals(D1), rid)
        o = Val.oid(rec)

        def fld(f):
            return z3.Select(I.st.field(f)[0], o)
        ca, la = fld("created_at"), fld("last_activity")
        I.oblige(self.name("record_holds_given_info_version_and_id"),
                 z3.And(V.is_obj(rec), z3.Select(I.st.cls, o) == self.info_cls.cid,
                        fld("session_id") == result, fld("client_info") == self.ci,
                        fld("protocol_version") == self.pv))
        if self.with_metadata:
            md_ok = z3.If(V.truthy(self.md), fld("metadata") == self.md,
                          z3.And(V.is_dict(fld("metadata")), Val.dsize(fld("metadata")) == 0))
        else:
            md_ok = z3.And(V.is_dict(fld("metadata")), Val.dsize(fld("metadata")) == 0)
        I.oblige(self.name("metadata_given_or_empty"), md_ok)
        I.oblige(self.name("timestamps_are_current_time"),
                 z3.And(V.is_real(ca), V.is_real(la), Val.r(ca) >= self.entry_now, Val.r(ca) <= Val.r(la),
                        Val.r(la) <= I.st.now))
        I.oblige(self.name("other_sessions_untouched"), self.other_keys_unchanged(I, D, D1, rid, self.q))
        # representation invariant re-established for the new key against an arbitrary other key
        I.oblige(self.name("well_formed_preserved"),
                 z3.And(self.wf_pair(D1, rid, self.q), o >= 1_000_000))


def lemma_dash_removal_injective():
    """str(uuid).replace('-', '') is injective on canonical 8-4-4-4-12 strings."""
    def canon(tag):
        cs = []
        for k in range(36):
            cs.append("-" if k in (8, 13, 18, 23) else z3.Int(f"{tag}{k}"))
        return cs
    a, b = canon("ua"), canon("ub")
    asm = []
    for c in a + b:
        if not isinstance(c, str):
            asm.append(z3.Or(z3.And(c >= 48, c <= 57), z3.And(c >= 97, c <= 102)))
    ra = [c for c in a if not isinstance(c, str)]
    rb = [c for c in b if not isinstance(c, str)]
    asm.append(P.chars_eq(ra, rb))
    return asm, P.chars_eq(a, b)


class GenerateId(Contract):
    """generate_session_id() returns the 32 hex characters of a fresh uuid4 (dashes removed)."""
    key = f"{BASE}::BaseSessionManager.generate_session_id"
    prop = "C19"

    def setup(self, I):
        cd = I.ctx.repo_class(I.ctx.repo.klass(f"{MEM}::InMemorySessionManager"))
        return [I.new_object(cd, {"sessions": V.VDict([])})], {}

    def post(self, I, result):
        chars = I.uuids[-1] if getattr(I, "uuids", None) else None
        ok = z3.BoolVal(False)
        if chars is not None:
            want = [c for c in chars if not isinstance(c, str)]
            got = P.char_list(Val.s(result)) if V.ctor_name(z3.simplify(result)) == "str" else None
            ok = P.chars_eq(got, want) if got is not None else (Val.s(result) == P.from_chars(want))
        I.oblige(self.name("is_uuid4_hex_without_dashes"), z3.And(V.is_str(result), ok))


class C19(Check):
    prop = "C19"
    level = "proof"
    title = ("every operation of the in-memory session manager proved against a whole-map postcondition "
             "(touched key + arbitrary other key, record contents through the heap)")
    design_ref = "section 7, C19"
    trusted = ["uuid4 freshness (122 random bits): a new uuid4 differs from every uuid that produced an existing key",
               "time.time() reads a monotone ghost clock",
               "dataclass SessionInfo: the generated __init__ stores each argument in the attribute of the same name"]

    def install(self, ctx):
        E.install_standard(ctx)
        ctx.uuid_chars = True
        ctx.extern_handlers["uuid.uuid4"] = c19_uuid4
        from checks import c19_cleanup
        c19_cleanup.install(ctx)
        from pyvc import pyd
        from checks.sendmsg import MESSAGE
        pyd.install(ctx)
        ctx.env_class(MESSAGE)
        from checks import server as SRV
        ctx.dynamic_call_hook = SRV.dynamic_call

    def contracts(self):
        from checks import c19_cleanup
        from checks import C04
        # "every successful initialize creates exactly one session recording the client's info and the answered
        # version": the initialize handler's contract (C04) is re-verified here
        return [GetSession(), UpdateActivity(), DeleteSession(), SessionCount(), ListSessions(), ClearAll(),
                CreateSession(True), CreateSession(False), GenerateId()] + c19_cleanup.contracts() + [C04.HandleInitialize()]

    def loop_invariants(self):
        from checks import c19_cleanup
        return c19_cleanup.loop_invariants()

    def lemmas(self):
        return [Lemma("C19.lemma.dash_removal_injective", lemma_dash_removal_injective)]

    def canaries(self):
        return [
            Canary("list_sessions returns the store itself", MEM, "return self.sessions.copy()", "return self.sessions",
                   "is_a_copy"),
            Canary("update_activity creates missing sessions", MEM,
                   "            self.sessions[session_id].last_activity = time.time()\n            return True\n        return False",
                   "            self.sessions[session_id].last_activity = time.time()\n            return True\n"
                   "        self.create_session({}, \"\")\n        return False", "update_activity"),
            Canary("delete_session always True", MEM,
                   "            del self.sessions[session_id]\n            return True\n        return False",
                   "            del self.sessions[session_id]\n            return True\n        return True",
                   "delete_session.returns_whether"),
            Canary("create_session stores the wrong version", MEM, "protocol_version=protocol_version,",
                   "protocol_version=str(protocol_version),", "record_holds"),
            Canary("expiry uses >= (a session idle for exactly the limit is removed)", MEM,
                   "if now - session.last_activity > max_age", "if now - session.last_activity >= max_age",
                   "expired_means"),
            Canary("cleanup stops after the first deletion", MEM,
                   "            del self.sessions[sid]\n\n        return len(expired)",
                   "            del self.sessions[sid]\n            break\n\n        return len(expired)", "cleanup_expired"),
            Canary("cleanup returns remaining count", MEM, "        return len(expired)", "        return len(self.sessions)",
                   "returns_number_removed"),
            Canary("session id keeps its dashes", BASE, 'return str(uuid.uuid4()).replace("-", "")',
                   "return str(uuid.uuid4())", "is_uuid4_hex", also=[f"{BASE}::BaseSessionManager.generate_session_id"]),
        ]

    def replay(self, name, model, rec):
        from checks import replay_server
        return replay_server.replay_c19(name, model, rec)

    def bounded_stand_in(self, tier, undecided):
        """session/memory.py outside the interpreted subset (or its proof script no longer matching): the real
        InMemorySessionManager against a dict model on EVERY operation sequence up to a stated length over a small
        alphabet (bounded, never counted as proved)."""
        if not any("session/memory.py" in u for u in undecided):
            return []
        import itertools
        from unittest import mock
        from chuk_mcp.server.session.memory import InMemorySessionManager
        depth = 5 if tier == "thorough" else 4
        ops = ["create", "create_meta", "get0", "get_missing", "touch0", "touch_missing", "del0", "del_missing",
               "tick1", "tick3600", "clean0", "clean1", "clean_default", "list", "count"]
        n = 0
        for seq in itertools.product(ops, repeat=depth):
            n += 1
            clock = [1000.0]
            with mock.patch("time.time", lambda: clock[0]):
                m = InMemorySessionManager()
                model, order = {}, []
                for step, op in enumerate(seq):
                    def bad(observed, required):
                        return [dict(name="session_map", reproduced=True, input=list(seq[:step + 1]), observed=observed,
                                     required=required, bound=f"all operation sequences of length {depth}")]
                    try:
                        if op in ("create", "create_meta"):
                            meta = {"k": step} if op == "create_meta" else None
                            ci = {"name": f"c{step}"}
                            sid = m.create_session(ci, f"v{step}", meta)
                            if sid in model or not isinstance(sid, str):
                                return bad(f"id {sid!r} reused or not a str", "a fresh str id")
                            model[sid] = dict(client_info=ci, protocol_version=f"v{step}", created_at=clock[0],
                                              last_activity=clock[0], metadata=meta or {})
                            order.append(sid)
                        elif op in ("get0", "get_missing"):
                            sid = order[0] if (op == "get0" and order) else "missing"
                            got = m.get_session(sid)
                            if (got is None) != (sid not in model):
                                return bad(f"get_session({sid!r}) -> {got!r}", "record iff present")
                        elif op in ("touch0", "touch_missing"):
                            sid = order[0] if (op == "touch0" and order) else "missing"
                            r = m.update_activity(sid)
                            if r != (sid in model):
                                return bad(f"update_activity({sid!r}) -> {r!r}", sid in model)
                            if sid in model:
                                model[sid]["last_activity"] = clock[0]
                        elif op in ("del0", "del_missing"):
                            sid = order[0] if (op == "del0" and order) else "missing"
                            r = m.delete_session(sid)
                            if r != (sid in model):
                                return bad(f"delete_session({sid!r}) -> {r!r}", sid in model)
                            model.pop(sid, None)
                        elif op.startswith("tick"):
                            clock[0] += float(op[4:])
                        elif op.startswith("clean"):
                            lim = {"clean0": 0, "clean1": 1, "clean_default": 3600}[op]
                            r = m.cleanup_expired() if op == "clean_default" else m.cleanup_expired(lim)
                            gone = [k for k, v in model.items() if clock[0] - v["last_activity"] > lim]
                            for k in gone:
                                del model[k]
                            if r != len(gone):
                                return bad(f"cleanup_expired({lim}) -> {r!r}", len(gone))
                        elif op == "list":
                            r = m.list_sessions()
                            if r is m.sessions or set(r) != set(model):
                                return bad("list_sessions() is the store itself or has other keys", "an equal copy")
                        elif op == "count":
                            if m.get_session_count() != len(model):
                                return bad(f"get_session_count() -> {m.get_session_count()}", len(model))
                    except Exception as ex:
                        return bad(f"{type(ex).__name__}: {ex}", "no exception")
                    # whole-map comparison after every operation
                    if set(m.sessions) != set(model):
                        return bad(f"keys {sorted(m.sessions)}", f"keys {sorted(model)}")
                    for k, v in model.items():
                        rec_ = m.sessions[k]
                        got = dict(client_info=rec_.client_info, protocol_version=rec_.protocol_version,
                                   created_at=rec_.created_at, last_activity=rec_.last_activity, metadata=rec_.metadata)
                        if got != v or rec_.session_id != k:
                            return bad(f"record {k}: {got}", v)
                order = [k for k in order if k in model]
        return [dict(name="session_map", reproduced=False, cases=n, covers="session/memory.py::InMemorySessionManager",
                     bound=f"all {len(ops)}^{depth} operation sequences over {len(ops)} operations, whole map compared "
                           f"with a dict model after every step (bounded, not a proof)")]


CHECK = C19()
