"""C02 - everything emitted is valid JSON-RPC 2.0 and survives the library's own parser."""
from __future__ import annotations

import ast
import os

import z3

from pyvc import vals as V
from pyvc.vals import Val
from pyvc import prelude as P
from pyvc import envs as E
from pyvc import pyd
from pyvc.core import PyRaise
from pyvc.check import Check, Canary
from pyvc.verify import Contract
from pyvc.loader import Repo, Unsupported

JSONRPC = "src/chuk_mcp/protocol/messages/json_rpc_message.py"
S = z3.StringSort()


def K(s):
    return z3.StringVal(s)


def json_value(v):
    return z3.Or(V.is_none(v), V.is_bool(v), V.is_int(v), V.is_real(v), V.is_str(v), V.is_list(v), V.is_dict(v))


def dump_of(I, obj, exclude_none=True):
    return pyd.base_model_dump(I, obj, {"exclude_none": V.VBool(exclude_none)})


def has(d, k):
    return z3.Select(Val.dkeys(d), K(k))


def val(d, k):
    return z3.Select(Val.dvals(d), K(k))


class Ctor(Contract):
    prop = "C02"

    def name(self, clause):
        return f"C02.{self.key.split('::')[1]}.{clause}"

    def sym_id(self, I, allow_none=False):
        i = I.fresh("id")
        I.assume(z3.Or(V.is_int(i), V.is_str(i), V.is_none(i)) if allow_none else z3.Or(V.is_int(i), V.is_str(i)))
        return i

    def sym_params(self, I):
        p = I.fresh("params")
        I.assume(z3.Or(V.is_none(p), z3.And(V.is_dict(p), Val.dsize(p) >= 0)))
        meta = val(p, "_meta")
        I.assume(z3.Implies(z3.And(V.is_dict(p), has(p, "_meta")), z3.And(V.is_dict(meta), Val.dsize(p) >= 1)))
        return p


class CreateRequest(Ctor):
    key = f"{JSONRPC}::create_request"

    def __init__(self, id_mode):
        self.id_mode = id_mode

    def setup(self, I):
        self.method = I.fresh("method")
        I.assume(V.is_str(self.method))
        self.params = self.sym_params(I)
        kwargs = {"method": self.method, "params": self.params}
        if self.id_mode == "given":
            self.id = self.sym_id(I)
            kwargs["id"] = self.id
        else:
            self.id = None
        return [], kwargs

    def post(self, I, result):
        d = dump_of(I, result)
        watch = {"id": self.id if self.id is not None else V.NONE, "method": self.method, "params": self.params}
        I.oblige(self.name(f"is_a_valid_request_envelope[{self.id_mode}]"),
                 z3.And(val(d, "jsonrpc") == V.VStr("2.0"), has(d, "id"), z3.Or(V.is_int(val(d, "id")), V.is_str(val(d, "id"))),
                        has(d, "method"), val(d, "method") == self.method, z3.Not(has(d, "result")),
                        z3.Not(has(d, "error"))), watch=watch)
        if self.id is not None:
            I.oblige(self.name("keeps_the_callers_id_value_and_json_type"), val(d, "id") == self.id, watch=watch)
        I.oblige(self.name(f"keeps_the_callers_params[{self.id_mode}]"),
                 z3.If(V.is_none(self.params), z3.Not(has(d, "params")), val(d, "params") == self.params), watch=watch)


class CreateNotification(Ctor):
    key = f"{JSONRPC}::create_notification"

    def setup(self, I):
        self.method = I.fresh("method")
        I.assume(V.is_str(self.method))
        self.params = self.sym_params(I)
        return [], {"method": self.method, "params": self.params}

    def post(self, I, result):
        d = dump_of(I, result)
        I.oblige(self.name("is_a_valid_notification_envelope_without_id"),
                 z3.And(val(d, "jsonrpc") == V.VStr("2.0"), z3.Not(has(d, "id")), val(d, "method") == self.method,
                        has(d, "method"), z3.Not(has(d, "result")), z3.Not(has(d, "error")),
                        z3.If(V.is_none(self.params), z3.Not(has(d, "params")), val(d, "params") == self.params)))


class CreateResponse(Ctor):
    key = f"{JSONRPC}::create_response"

    def setup(self, I):
        self.id = self.sym_id(I)
        self.result = I.fresh("result")
        I.assume(json_value(self.result))
        return [self.id, self.result], {}

    def post(self, I, result):
        d = dump_of(I, result)
        I.oblige(self.name("carries_exactly_a_result_and_the_id"),
                 z3.And(val(d, "jsonrpc") == V.VStr("2.0"), val(d, "id") == self.id, has(d, "id"), has(d, "result"),
                        z3.Not(has(d, "error")), z3.Not(has(d, "method"))),
                 watch={"id": self.id, "result": self.result})
        I.oblige(self.name("result_is_the_given_payload_or_an_empty_object"),
                 z3.If(V.is_none(self.result), z3.And(V.is_dict(val(d, "result")), Val.dsize(val(d, "result")) == 0),
                       val(d, "result") == self.result), watch={"result": self.result})


class CreateErrorResponse(Ctor):
    key = f"{JSONRPC}::create_error_response"

    def setup(self, I):
        self.id = self.sym_id(I)
        self.code, self.msg, self.data = I.fresh("code"), I.fresh("message"), I.fresh("data")
        I.assume(z3.And(V.is_int(self.code), V.is_str(self.msg), json_value(self.data)))
        return [self.id, self.code, self.msg, self.data], {}

    def post(self, I, result):
        d = dump_of(I, result)
        e = val(d, "error")
        I.oblige(self.name("carries_exactly_an_error_with_int_code_and_str_message"),
                 z3.And(val(d, "jsonrpc") == V.VStr("2.0"), val(d, "id") == self.id, has(d, "error"), z3.Not(has(d, "result")),
                        z3.Not(has(d, "method")), V.is_dict(e), val(e, "code") == self.code, val(e, "message") == self.msg,
                        has(e, "code"), has(e, "message"),
                        z3.If(V.is_none(self.data), z3.Not(has(e, "data")), val(e, "data") == self.data)))


class ParseEmitted(Ctor):
    """parse_message applied to the emitted form of a message of kind K returns a message of the same kind with
    identical id (value and JSON type), method, params, result, error."""
    key = f"{JSONRPC}::parse_message"

    def __init__(self, kind):
        self.kind = kind

    def name(self, clause):
        return f"C02.parse_message.{clause}[{self.kind}]"

    def setup(self, I):
        d = I.fresh("wire")
        I.assume(z3.And(V.is_dict(d), Val.dsize(d) >= 1))
        conds = [has(d, "jsonrpc"), val(d, "jsonrpc") == V.VStr("2.0")]
        idv, meth, par, res, err = (val(d, k) for k in ("id", "method", "params", "result", "error"))
        k = self.kind
        if k in ("request", "notification"):
            conds += [has(d, "method"), V.is_str(meth), z3.Length(Val.s(meth)) >= 0, z3.Not(has(d, "result")),
                      z3.Not(has(d, "error")),
                      z3.Or(z3.Not(has(d, "params")), z3.And(V.is_dict(par), Val.dsize(par) >= 0))]
            conds += [has(d, "id"), z3.Or(V.is_int(idv), V.is_str(idv))] if k == "request" else [z3.Not(has(d, "id"))]
        elif k == "response":
            conds += [has(d, "id"), z3.Or(V.is_int(idv), V.is_str(idv)), has(d, "result"), z3.Not(V.is_none(res)),
                      json_value(res), z3.Implies(V.is_dict(res), Val.dsize(res) >= 0), z3.Not(has(d, "error")),
                      z3.Not(has(d, "method")), z3.Not(has(d, "params"))]
        else:
            conds += [has(d, "id"), z3.Or(V.is_int(idv), V.is_str(idv)), has(d, "error"), V.is_dict(err),
                      Val.dsize(err) >= 2, has(err, "code"), V.is_int(val(err, "code")), has(err, "message"),
                      V.is_str(val(err, "message")), z3.Not(has(d, "result")), z3.Not(has(d, "method")),
                      z3.Not(has(d, "params"))]
        I.assume(z3.And(conds))
        self.d = d
        return [d], {}

    def post(self, I, result):
        d = self.d
        r = z3.simplify(result)

        def attr(n):
            v, h = I.get_field(r, n)
            return z3.If(h, v, V.NONE)

        def want(n):
            return z3.If(has(d, n), val(d, n), V.NONE)
        same = z3.And(V.is_obj(r), *[attr(n) == want(n) for n in ("id", "method", "params", "result", "error")])
        I.oblige(self.name("round_trip_preserves_id_method_params_result_error"), same, watch={"wire": d})
        m_, i_, r_, e_ = (z3.Not(V.is_none(attr(n))) for n in ("method", "id", "result", "error"))
        kind_ok = {"request": z3.And(m_, i_), "notification": z3.And(m_, z3.Not(i_)),
                   "response": z3.And(z3.Not(m_), i_, r_, z3.Not(e_)), "error": z3.And(z3.Not(m_), i_, e_, z3.Not(r_))}[self.kind]
        I.oblige(self.name("parsed_message_has_the_same_kind"), kind_ok, watch={"wire": d})

    def post_exc(self, I, e):
        I.oblige(self.name(f"own_parser_accepts_what_the_library_emits[{e.cls_name}]"), z3.BoolVal(False),
                 watch={"wire": self.d})


EMITTER_CALLS = {"create_request", "create_notification", "create_response", "create_error_response",
                 "JSONRPCRequest", "JSONRPCNotification", "JSONRPCResponse", "JSONRPCError", "JSONRPCMessage"}
# (file, function) sites that build envelopes, as read when the contracts were written.  A new site makes the
# check UNDECIDED (it has no contract yet), a vanished one is reported as well.
KNOWN_EMITTERS = None      # filled lazily from notes file


def discover_emitters(repo: Repo):
    sites = set()
    for rel in repo.all_package_files():
        mi = repo.load_path(rel)
        for node in ast.walk(mi.tree):
            if isinstance(node, (ast.FunctionDef, ast.AsyncFunctionDef)):
                for n in ast.walk(node):
                    if isinstance(n, ast.Call):
                        f = n.func
                        nm = f.id if isinstance(f, ast.Name) else (f.attr if isinstance(f, ast.Attribute) else None)
                        if nm in EMITTER_CALLS:
                            sites.add(f"{rel}::{node.name}")
    return sites


class C02(Check):
    prop = "C02"
    level = "other"
    title = ("the four envelope constructors proved to emit valid JSON-RPC 2.0 envelopes (exclude_none dump) for every "
             "id/method/params/result/error; parse_message proved to accept the emitted form of each kind and to "
             "preserve kind, id (value and type), method, params, result, error; emitter sites discovered from the AST "
             "and compared with the recorded list; payload fidelity inside pydantic-core / codecs is assumed")
    design_ref = "section 7, C02"
    trusted = ["pydantic per pyvc.pyd: field acceptance (lax table), extras kept, model_post_init from /repo executed, "
               "model_dump(exclude_none) drops None-valued top-level members and keeps nested payloads as they are",
               "environment variable SKIP_JSONRPC_VALIDATION is not set",
               "payload fidelity inside pydantic-core and the JSON codecs (nested nulls, big ints, unicode) is assumed "
               "(codec part audited in C17)"]

    def install(self, ctx):
        E.install_standard(ctx)
        pyd.install(ctx)
        ctx.extern_handlers["os.environ.get"] = lambda I, a, k, n: (a[1] if len(a) > 1 else V.NONE)
        from checks import C06, C07
        C07.CHECK.install(ctx)
        dyn_helpers = ctx.dynamic_call_hook
        C06.CHECK.install(ctx)
        dyn_writer = ctx.dynamic_call_hook

        def dyn(I, fv, args, kwargs, node, awaited):
            # typed request helpers (C07.Helper contracts) / the stdio writer (C06 contract)
            if str(getattr(I, "callsite_prefix", "")).startswith("C07."):
                return dyn_helpers(I, fv, args, kwargs, node, awaited)
            return dyn_writer(I, fv, args, kwargs, node, awaited)
        ctx.dynamic_call_hook = dyn

    def modular(self):
        from checks import C06, helpers_c07
        m = dict(C06.CHECK.modular())
        m.update(helpers_c07.modular())
        return m

    def loop_invariants(self):
        from checks import C06
        return C06.CHECK.loop_invariants()

    def contracts(self):
        from checks import C06
        # the stdio serialiser is one of the emitters the statement names: its per-write obligations (one line of the
        # message's JSON text, typed messages dumped with exclude_none=True only) are re-verified here
        return [CreateRequest("given"), CreateRequest("generated"), CreateNotification(), CreateResponse(),
                CreateErrorResponse()] + [ParseEmitted(k) for k in ("request", "notification", "response", "error")] + \
            [C06.StdinWriter()] + self.helper_contracts()

    def helper_contracts(self):
        # the typed request helpers are emitters too: what the caller hands them (names, uris, argument objects) reaches
        # the request params unchanged (C07.Helper contracts, clause argument_*_reaches_the_request_params_unchanged)
        from checks import helpers_c07
        return helpers_c07.contracts()


    def audits(self, tier):
        # the envelope's own model_dump override and the fallback backend's serialisation are repository code: the emitted
        # envelopes are exercised natively under both backends (bounded, never counted as proved)
        from checks import native
        return [lambda: native.audit_both_backends("C02.", tier)]

    def static_checks(self, repo):
        path = os.path.join(os.path.dirname(__file__), "c02_emitters.txt")
        found = discover_emitters(repo)
        if not os.path.exists(path):
            raise Unsupported("recorded emitter list missing")
        recorded = {l.strip() for l in open(path) if l.strip() and not l.startswith("#")}
        new = sorted(found - recorded)
        if new:
            raise Unsupported(f"emitter site(s) without a contract: {new}")
        return [("C02.emitters.discovered_sites_are_the_recorded_ones", True, "")]

    def canaries(self):
        return [
            Canary("create_response keeps a None result", JSONRPC,
                   "    if result is None:\n        result = {}  # Empty result as per spec\n", "", "C02.create_response"),
            Canary("create_error_response drops the message", JSONRPC, 'error = {"code": code, "message": message}',
                   'error = {"code": code}', "C02.create_error_response"),
            Canary("falsy ids replaced by a uuid", JSONRPC, "    if id is None:\n        import uuid\n\n        id = str(uuid.uuid4())\n\n    # Add progress token",
                   "    import uuid\n    id = id or str(uuid.uuid4())\n\n    # Add progress token", "keeps_the_callers_id"),
            Canary("parser stringifies integer ids of responses", JSONRPC,
                   "        if isinstance(data, dict):\n            data = data.copy()  # Don't modify original\n",
                   "        if isinstance(data, dict):\n            data = data.copy()  # Don't modify original\n"
                   "            if \"method\" not in data and isinstance(data.get(\"id\"), int):\n                data[\"id\"] = str(data[\"id\"])\n",
                   "round_trip_preserves"),
            Canary("notification constructor adds a null id member", JSONRPC,
                   'return JSONRPCNotification(jsonrpc="2.0", method=method, params=params)',
                   'return JSONRPCNotification(jsonrpc="2.0", method=method, params=params, id=0)', "notification_envelope"),
        ]

    def replay(self, name, model, rec):
        return None


    def bounded_stand_in(self, tier, undecided):
        from checks import native
        return native.stand_in(['C06.'], tier, undecided)

CHECK = C02()
