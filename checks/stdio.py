"""Shared environment for the stdio transport (C05, C06, C13-transport, C16): the child process, its pipes,
the JSON codec seen through fast_json's contract, parse_message's contract."""
from __future__ import annotations

import z3

from pyvc import vals as V
from pyvc.vals import Val
from pyvc import prelude as P
from pyvc import envs as E
from pyvc import pyd
from pyvc.core import PyRaise, PathEnd
from pyvc.verify import Contract
from pyvc.loader import Unsupported

STDIO = "src/chuk_mcp/transports/stdio/stdio_client.py"
FASTJSON = "src/chuk_mcp/protocol/fast_json.py"
JSONRPC = "src/chuk_mcp/protocol/messages/json_rpc_message.py"
BATCHING = "src/chuk_mcp/protocol/features/batching.py"
PARAMS = "src/chuk_mcp/transports/stdio/parameters.py"

S = z3.StringSort()
# ---- codec (assumed; audited in C17): compact JSON text of a value, and its partial inverse
json_text = z3.Function("json_text", Val, S)                 # dumps(x) for serialisable x (no indent)
json_serialisable = z3.Function("json_serialisable", Val, z3.BoolSort())
json_ok = z3.Function("json_ok", S, z3.BoolSort())           # loads(s) succeeds
json_val = z3.Function("json_val", S, Val)                   # loads(s)
valid_message = z3.Function("valid_message", Val, z3.BoolSort())   # parse_message(data) succeeds (data a dict)
NL = z3.StringVal("\n")


def klass(I, key):
    return I.ctx.repo_class(I.ctx.repo.klass(key))


def surely_json(I, v, depth=0):
    """syntactic sufficient condition for JSON-serialisability: literal containers of scalars (ints of any size are
    covered by the stdlib fallback of fast_json.dumps)"""
    if depth > 5:
        return False
    sv = z3.simplify(v)
    cn = V.ctor_name(sv)
    if cn in ("none", "bool", "int", "str"):
        return True
    if cn == "dict":
        ks = P.concrete_keys(sv)
        if ks is None:
            return False
        return all(surely_json(I, z3.Select(Val.dvals(sv), z3.StringVal(k)), depth + 1) for k in ks)
    if cn == "list":
        n = z3.simplify(z3.Length(Val.items(sv)))
        if not z3.is_int_value(n):
            return False
        return all(surely_json(I, Val.items(sv)[k], depth + 1) for k in range(n.as_long()))
    if cn is None:
        return P.entails(I, z3.Or(V.is_none(sv), V.is_bool(sv), V.is_int(sv), V.is_str(sv)))
    return False


class DumpsModular(Contract):
    """fast_json.dumps(obj) without indent (C17): the compact JSON text - it contains no raw line break - or an
    exception for values that cannot be serialised."""
    key = f"{FASTJSON}::dumps"

    def apply(self, I, args, kwargs, node):
        obj = args[0]
        if kwargs:
            raise Unsupported("fast_json.dumps with keyword arguments at this call site", node)
        if surely_json(I, obj):
            I.assume(json_serialisable(obj))
        if not I.choose(json_serialisable(obj), "dumps_ok"):
            raise PyRaise(I.make_exc("TypeError", V.VStr("not JSON serializable")), "TypeError")
        t = json_text(obj)
        I.ghost["last_dumped"] = obj
        I.assume(z3.Not(z3.Contains(t, NL)))
        I.assume(z3.Length(t) > 0)
        return V.VStr(t)


class LoadsModular(Contract):
    """fast_json.loads(s): the parsed JSON value or JSONDecodeError"""
    key = f"{FASTJSON}::loads"

    def apply(self, I, args, kwargs, node):
        s = args[0]
        sv = z3.simplify(s)
        if V.ctor_name(sv) != "str":
            if V.ctor_name(sv) is not None or not I.choose(V.is_str(sv), "loads_arg_is_str"):
                raise Unsupported("fast_json.loads of a non-str at this call site", node)
        x = Val.s(sv)
        if I.choose(json_ok(x), "json_ok"):
            v = json_val(x)
            # a parsed JSON document is JSON data
            I.assume(z3.Or(V.is_none(v), V.is_bool(v), V.is_int(v), V.is_real(v), V.is_str(v), V.is_list(v),
                           V.is_dict(v)))
            I.assume(z3.Implies(V.is_dict(v), Val.dsize(v) >= 0))
            return v
        # a text that is not a JSON document: JSONDecodeError - or, for pathological input, whatever the parser runs
        # into (RecursionError on thousands of nested brackets, MemoryError ...): any Exception
        if I.choose_n(2, "loads_failure_kind") == 1:
            raise PyRaise(I.make_exc("AnyException", V.VStr("parser gave up")), "AnyException")
        ev = I.make_exc("JSONDecodeError", V.VStr("Expecting value"))
        raise PyRaise(ev, "JSONDecodeError")


src_of = z3.Function("src_of", Val, Val)          # the JSON data a delivered message object was parsed from


class ParseMessageModular(Contract):
    """parse_message(data) for a single (non-list) item: a fresh message object determined by `data`
    (ghost __src__ = data; id/method attributes as in data), or ValueError/ValidationError when the data is not
    a valid JSON-RPC message.  (C02 proves the classification; here only success/failure matters.)"""
    key = f"{JSONRPC}::parse_message"

    def apply(self, I, args, kwargs, node):
        data = args[0]
        if I.choose(V.is_list(data), "parse_arg_is_list"):
            raise Unsupported("parse_message of a batch at this call site", node)
        if not I.choose(z3.And(V.is_dict(data), valid_message(data)), "valid_message"):
            k = ["ValueError", "PydanticValidationError"][I.choose_n(2, "parse_error_kind")]
            raise PyRaise(I.make_exc(k, V.VStr("invalid message")), k)

        def get(name):
            return z3.If(z3.Select(Val.dkeys(data), z3.StringVal(name)), z3.Select(Val.dvals(data), z3.StringVal(name)),
                         V.NONE)
        cd = I.ctx.env_class(MESSAGE)
        m = I.new_object(cd, {"__src__": data, "id": get("id"), "method": get("method"), "params": get("params"),
                              "result": get("result"), "error": get("error"), "jsonrpc": V.VStr("2.0")})
        I.assume(z3.Or(V.is_none(get("id")), V.is_int(get("id")), V.is_str(get("id"))))
        return m


from checks.sendmsg import MESSAGE        # noqa: E402


# --------------------------------------------------------------------------- the child process
class PipeOut(E.EnvClass):
    """process.stdout: an async iterator over the ghost sequence of chunks (bytes or str) the OS delivers;
    iteration ends when the child closes the pipe, or raises an OSError-like error."""
    name = "ProcStdout"

    def __init__(self, may_fail=True):
        self.methods = {"__aiter__": lambda I, r, a, k: r, "__anext__": E.is_async(self.anext)}
        self.may_fail = may_fail

    def anext(self, I, recv, args, kwargs):
        chunks = Val.items(E.gfield(I, recv, "chunks"))
        pos = Val.i(E.gfield(I, recv, "pos"))
        I.assume(z3.And(pos >= 0, pos <= z3.Length(chunks)))
        c = I.choose_n(3 if self.may_fail else 2, "stdout_next")
        if c == 0:
            E.checkpoint_nofire(I)
            I.assume_checked(pos < z3.Length(chunks))
            ch = z3.simplify(chunks[pos])
            I.set_attr(recv, "pos", V.VInt(z3.simplify(pos + 1)))
            hook = getattr(I, "on_chunk", None)
            if hook is not None:
                hook(I, ch)
            return ch
        if c == 1:
            E.checkpoint_nofire(I)
            I.assume_checked(pos == z3.Length(chunks))
            I.throw("StopAsyncIteration", "")
        E.checkpoint_nofire(I)
        I.ghost["read_error"] = True
        raise PyRaise(I.make_exc("AnyException", V.VStr("read error")), "AnyException")


class PipeIn(E.EnvClass):
    """process.stdin: send(data) appends to the ghost list of writes or raises; aclose() closes."""
    name = "ProcStdin"

    def __init__(self):
        self.methods = {"send": E.is_async(self.send), "aclose": E.is_async(self.aclose)}

    def send(self, I, recv, args, kwargs):
        att = Val.items(E.gfield(I, recv, "attempted"))
        I.set_attr(recv, "attempted", V.VList(z3.simplify(z3.Concat(att, z3.Unit(args[0])))))
        c = I.choose_n(2, "stdin_send")
        E.checkpoint_nofire(I)
        if c == 0:
            w = Val.items(E.gfield(I, recv, "writes"))
            I.set_attr(recv, "writes", V.VList(z3.simplify(z3.Concat(w, z3.Unit(args[0])))))
            return V.NONE
        k = ["BrokenResourceError", "ClosedResourceError"][I.choose_n(2, "stdin_error")]
        I.throw(k, "")

    def aclose(self, I, recv, args, kwargs):
        I.set_attr(recv, "closed", V.TRUE)
        return V.NONE


class ProcessEnv(E.EnvClass):
    """anyio Process.  Ghost: returncode (None while running), term_sent, kill_sent.
    terminate()/kill() send the signal; wait() returns once the child has exited: after SIGKILL it always
    does (OS assumption), after SIGTERM it may or may not (the child can ignore it)."""
    name = "Process"

    def __init__(self):
        self.methods = {"terminate": self.terminate, "kill": self.kill, "wait": E.is_async(self.wait)}

    def terminate(self, I, recv, args, kwargs):
        I.set_attr(recv, "term_sent", V.TRUE)
        return V.NONE

    def kill(self, I, recv, args, kwargs):
        I.set_attr(recv, "kill_sent", V.TRUE)
        return V.NONE

    def wait(self, I, recv, args, kwargs):
        rc = E.gfield(I, recv, "returncode")
        already = z3.Not(V.is_none(rc))
        killed = V.truthy(E.gfield(I, recv, "kill_sent"))
        c = I.choose_n(2, "wait_outcome")
        if c == 0:
            # the child has exited (or exits while we wait)
            E.checkpoint_nofire(I)
            new = I.fresh("returncode")
            I.assume(V.is_int(new))
            I.set_attr(recv, "returncode", z3.If(already, rc, new))
            return E.gfield(I, recv, "returncode")
        # still running when a scope fires: impossible once it was killed or had exited (OS assumption)
        I.assume_checked(z3.And(z3.Not(already), z3.Not(killed)))
        E.checkpoint_mustfire(I)


PIPE_OUT = PipeOut()
PIPE_IN = PipeIn()
PROCESS = ProcessEnv()


def make_process(I, running=True):
    chunks = I.fresh("chunks", V.SeqVal)
    out = E.new_env_object(I, PIPE_OUT, chunks=V.VList(chunks), pos=V.VInt(0))
    inn = E.new_env_object(I, PIPE_IN, writes=V.VList([]), attempted=V.VList([]), closed=V.FALSE)
    rc = V.NONE
    if not running:
        rc = I.fresh("rc0")
        I.assume(z3.Or(V.is_none(rc), V.is_int(rc)))
    p = E.new_env_object(I, PROCESS, stdout=out, stdin=inn, returncode=rc, term_sent=V.FALSE, kill_sent=V.FALSE,
                         pid=V.VInt(4242))
    return p, out, inn, chunks


def make_client(I, process=None, streams=True, version_mode="any"):
    """A StdioClient in its running state (as __aenter__ leaves it)."""
    ccd = klass(I, f"{STDIO}::StdioClient")
    bcd = klass(I, f"{BATCHING}::BatchProcessor")
    ver = I.fresh("protocol_version")
    I.assume(z3.Or(V.is_none(ver), V.is_str(ver)))
    enabled = I.fresh_bool("batching_enabled")
    bp = I.new_object(bcd, {"protocol_version": ver, "batching_enabled": V.VBool(enabled)})
    attrs = {"batch_processor": bp, "_pending": V.VDict([]), "_streams_initialized": V.VBool(streams),
             "process": process if process is not None else V.NONE, "tg": V.NONE}
    parts = dict(bp=bp, version=ver, enabled=enabled)
    if streams:
        parts["incoming_send"] = E.make_write_stream(I, "incoming")
        parts["notify_send"] = E.make_write_stream(I, "notify")
        parts["outgoing_recv"] = E.make_read_stream(I, "outgoing")
        parts["outgoing_send"] = E.make_write_stream(I, "outgoing_s")
        attrs.update({"_incoming_send": parts["incoming_send"], "_notify_send": parts["notify_send"],
                      "_outgoing_recv": parts["outgoing_recv"], "_outgoing_send": parts["outgoing_send"],
                      "_incoming_recv": V.NONE, "notifications": V.NONE})
    client = I.new_object(ccd, attrs)
    I.client_parts = parts
    return client


def install(ctx):
    E.install_standard(ctx)
    pyd.install(ctx)
    for e in (PIPE_OUT, PIPE_IN, PROCESS, MESSAGE):
        ctx.env_class(e)
    ctx.extern_handlers["traceback.format_exc"] = lambda I, a, k, n: V.VStr("<traceback>")
    ctx.extern_handlers.setdefault("anyio.create_memory_object_stream",
                                   lambda I, a, k, n: V.VTuple([E.make_write_stream(I, "mem_s"), E.make_read_stream(I, "mem_r")]))
    ctx.extern_handlers["anyio.get_cancelled_exc_class"] = \
        lambda I, a, k, n: V.VCls(I.ctx.cls_named("CancelledError").cid)
