"""C12 - SSE transport: live-or-raise setup, chunk-independent event stream, clean exit.
(3) exactly-once is decided per answer mode by SendRequest below (rely/guarantee over the pending table)."""
from __future__ import annotations

import z3

from pyvc import vals as V
from pyvc.vals import Val
from pyvc import prelude as P
from pyvc import envs as E
from pyvc import pyd
from pyvc.core import PyRaise, FnDesc
from pyvc.check import Check, Canary
from pyvc.verify import Contract
from checks import stdio as ST

SSE = "src/chuk_mcp/transports/sse/transport.py"
TKEY = f"{SSE}::SSETransport"
S = z3.StringSort()
NL = z3.StringVal("\n")
utf8_inc = z3.Function("utf8_inc", S, S)


def K(s):
    return z3.StringVal(s)


class EventEnv(E.EnvClass):
    """asyncio.Event"""
    name = "AsyncioEvent"

    def __init__(self):
        self.methods = {"set": self.set, "is_set": self.is_set, "wait": E.is_async(self.wait)}

    def set(self, I, recv, args, kwargs):
        I.set_attr(recv, "flag", V.TRUE)
        h = getattr(I, "on_event_set", None)
        if h is not None:
            h(I, recv)
        return V.NONE

    def is_set(self, I, recv, args, kwargs):
        return E.gfield(I, recv, "flag")

    def wait(self, I, recv, args, kwargs):
        return V.TRUE


class OpaqueEnv(E.EnvClass):
    name = "Opaque12"
    methods = {}


class ClosableEnv(E.EnvClass):
    """httpx client / memory stream seen only through aclose()"""
    name = "Closable"

    def __init__(self):
        self.methods = {"aclose": E.is_async(self.aclose)}

    def aclose(self, I, recv, args, kwargs):
        c = I.choose_n(2, "aclose_outcome")
        E.checkpoint_nofire(I)
        I.set_attr(recv, "closed", V.TRUE)
        return V.NONE


class TaskEnv(E.EnvClass):
    """asyncio.Task of one of the transport's two background coroutines.
    cancel() requests cancellation; awaiting a cancelled task returns once the coroutine has finished.  The sender
    coroutine swallows a cancellation that reaches it while it waits for the SSE answer of a 202-acknowledged request
    (transport.py: `except asyncio.CancelledError: logger.debug(...)` around wait_for(future)), so it only finishes if
    that future has been cancelled: awaiting the task REQUIRES that no un-cancelled pending future is left."""
    name = "AsyncioTask"

    def __init__(self):
        self.methods = {"cancel": self.cancel, "done": self.done, "__await__": self.await_}

    def cancel(self, I, recv, args, kwargs):
        I.set_attr(recv, "cancel_requested", V.TRUE)
        return V.TRUE

    def done(self, I, recv, args, kwargs):
        return E.gfield(I, recv, "finished")

    def await_(self, I, recv, args, kwargs):
        c12 = I.c12
        pend, _ = I.get_field(c12.transport, "_pending_requests")
        I.oblige("C12._cleanup.pending_futures_are_cancelled_before_a_task_is_awaited",
                 z3.Or(Val.dsize(pend) == 0, z3.BoolVal(bool(I.ghost.get("futures_cancelled")))))
        E.checkpoint_nofire(I)
        I.set_attr(recv, "finished", V.TRUE)
        I.set_attr(recv, "awaited", V.TRUE)
        if I.choose_n(2, "task_await_outcome") == 1:
            I.throw("CancelledError", "")
        return V.NONE


class FutureEnv(E.EnvClass):
    name = "AsyncioFuture"

    def __init__(self):
        self.methods = {"done": lambda I, r, a, k: E.gfield(I, r, "done_flag"), "cancel": self.cancel}

    def cancel(self, I, recv, args, kwargs):
        I.set_attr(recv, "done_flag", V.TRUE)
        I.ghost["future_cancels"] = I.ghost.get("future_cancels", 0) + 1
        return V.TRUE


EVENT, OPAQUE, CLOSABLE, TASK, FUTURE = EventEnv(), OpaqueEnv(), ClosableEnv(), TaskEnv(), FutureEnv()


def klass(I):
    return I.ctx.repo_class(I.ctx.repo.klass(TKEY))


# --------------------------------------------------------------------------- (1) live or raise
class Enter(Contract):
    key = f"{TKEY}.__aenter__"
    prop = "C12"
    covers = ("return", "raise:RuntimeError")

    def setup(self, I):
        I.c12 = self
        url = I.fresh("base_url", S)
        timeout = I.fresh("timeout")
        I.assume(z3.And(V.is_real(timeout), Val.r(timeout) > 0))
        self.connected = E.new_env_object(I, EVENT, flag=V.FALSE)
        self.transport = I.new_object(klass(I), {
            "base_url": V.VStr(url), "headers": V.VDict([]), "timeout": timeout, "bearer_token": V.NONE,
            "_stream_client": V.NONE, "_send_client": V.NONE, "_message_url": V.NONE, "_session_id": V.NONE,
            "_sse_task": V.NONE, "_outgoing_task": V.NONE, "_connected": self.connected,
            "_sse_stream_context": V.NONE, "_pending_requests": V.VDict([]),
            "_incoming_send": V.NONE, "_incoming_recv": V.NONE, "_outgoing_send": V.NONE, "_outgoing_recv": V.NONE})
        self.t0 = I.st.now
        return [self.transport], {}

    def post(self, I, result):
        mu, _ = I.get_field(self.transport, "_message_url")
        I.oblige(self.name("a_yielded_connection_has_an_announced_message_endpoint"),
                 z3.And(V.is_str(mu), z3.Length(Val.s(mu)) > 0), watch={"message_url": mu})
        I.oblige(self.name("returns_the_transport"), result == self.transport)

    def post_exc(self, I, e):
        I.oblige(self.name(f"fails_only_by_raising_an_exception_after_cleanup[{e.cls_name}]"),
                 z3.BoolVal(I.ghost.get("cleanups", 0) >= 1 and e.cls_name != "CancelledError"))


class CleanupModular(Contract):
    key = f"{TKEY}._cleanup"

    def apply(self, I, args, kwargs, node):
        I.ghost["cleanups"] = I.ghost.get("cleanups", 0) + 1
        E.checkpoint_nofire(I)
        return V.NONE


def x_wait_for(I, args, kwargs, node):
    """asyncio.wait_for(awaitable, timeout): while this task is suspended the SSE task runs (rely): it may announce
    the endpoint (_message_url := some url, event set) or fail/end (event set by its finally block, url untouched)
    or stay silent until the timeout."""
    c12 = I.c12
    c = I.choose_n(3, "wait_for_outcome")
    E.checkpoint_nofire(I)
    if c == 2:
        I.throw("TimeoutError", "")
    if c == 0:
        # _handle_endpoint_event stores whatever the `endpoint` event carried - for blank data that is the EMPTY string
        # (read from the source): "announced" must therefore be judged by the caller, not assumed
        u = I.fresh("announced_url")
        I.assume(V.is_str(u))
        I.set_attr(c12.transport, "_message_url", u)
    I.set_attr(c12.connected, "flag", V.TRUE)
    return V.TRUE


# --------------------------------------------------------------------------- (2) chunk independence of the stream parser
class SseResponse(E.EnvClass):
    """httpx streaming response.  aiter_text() yields text chunks t_0, t_1, ... of an incremental decoder:
    t_0 ++ ... ++ t_i == utf8_inc(all bytes received so far).  aiter_bytes() yields the raw byte chunks."""
    name = "SseResponse"

    def __init__(self):
        self.methods = {"aiter_text": self.aiter_text, "aiter_bytes": self.aiter_bytes, "aiter_lines": self.unsupported,
                        "__aiter__": lambda I, r, a, k: r, "__anext__": E.is_async(self.anext)}

    def unsupported(self, I, recv, args, kwargs):
        from pyvc.loader import Unsupported
        raise Unsupported("aiter_lines is not under an environment contract")

    def aiter_text(self, I, recv, args, kwargs):
        I.set_attr(recv, "mode", V.VStr("text"))
        return recv

    def aiter_bytes(self, I, recv, args, kwargs):
        I.set_attr(recv, "mode", V.VStr("bytes"))
        return recv

    def anext(self, I, recv, args, kwargs):
        c12 = I.c12
        c = I.choose_n(3, "sse_next")
        E.checkpoint_nofire(I)
        if c == 1:
            I.throw("StopAsyncIteration", "")
        if c == 2:
            raise PyRaise(I.make_exc("AnyException", V.VStr("read error")), "AnyException")
        b = I.fresh("bytes_chunk", S)
        bt = Val.s(E.gfield(I, c12.holder, "bytes_total"))
        tt = Val.s(E.gfield(I, c12.holder, "text_total"))
        bt2 = z3.Concat(bt, b)
        t = I.fresh("text_chunk", S)
        I.assume(z3.Concat(tt, t) == utf8_inc(bt2))
        I.set_attr(c12.holder, "bytes_total", V.VStr(bt2))
        I.set_attr(c12.holder, "text_total", V.VStr(z3.Concat(tt, t)))
        mode = P.pystr(Val.s(z3.simplify(E.gfield(I, recv, "mode"))))
        return V.VStr(t) if mode == "text" else V.VBytes(b)


class Holder(E.EnvClass):
    name = "SseGhost"
    methods = {}


SSE_RESPONSE, HOLDER = SseResponse(), Holder()


class HandlerModular(Contract):
    """_handle_endpoint_event / _handle_message_event: record the (event, data) pair in the ghost `handled`; never raise"""

    def __init__(self, key, kind):
        self.key, self.kind = key, kind

    def apply(self, I, args, kwargs, node):
        c12 = I.c12
        h = Val.items(E.gfield(I, c12.holder, "handled"))
        I.set_attr(c12.holder, "handled", V.VList(z3.simplify(z3.Concat(h, z3.Unit(V.VTuple([V.VStr(self.kind), args[1]]))))))
        if self.kind == "endpoint":
            I.set_attr(c12.transport, "_message_url", V.VStr(I.fresh("url", S)))
        E.checkpoint_nofire(I)
        return V.NONE


class ProcessStream(Contract):
    key = f"{TKEY}._process_sse_stream"
    prop = "C12"
    covers = ("return",)

    def setup(self, I):
        I.c12 = self
        self.holder = E.new_env_object(I, HOLDER, bytes_total=V.VStr(""), text_total=V.VStr(""), consumed=V.VStr(""),
                                       handled=V.VList([]))
        resp = E.new_env_object(I, SSE_RESPONSE, mode=V.VStr("text"))
        mu = I.fresh("message_url")
        I.assume(z3.Or(V.is_none(mu), V.is_str(mu)))
        self.transport = I.new_object(klass(I), {"_sse_response": resp, "_message_url": mu})
        I.assume(utf8_inc(K("")) == K(""))
        I.ctx.rstrip_probe = self.on_line
        return [self.transport], {}

    def on_line(self, I, raw_line):
        """ghost step when the parser takes a line off its buffer: consumed' = consumed ++ line ++ '\\n'"""
        cons = Val.s(E.gfield(I, self.holder, "consumed"))
        I.set_attr(self.holder, "consumed", V.VStr(z3.Concat(cons, raw_line, NL)))

    def g(self, I, n):
        return Val.s(E.gfield(I, self.holder, n))

    def post(self, I, result):
        buf = None
        # the function's frame is gone; the framing facts are carried by the loop invariants.  What remains to say
        # at the end is that the decoded text consumed so far is a function of the byte stream alone.
        I.oblige(self.name("text_seen_is_a_function_of_the_concatenated_bytes"),
                 self.g(I, "text_total") == utf8_inc(self.g(I, "bytes_total")))

    def post_exc(self, I, e):
        # a read error ends the stream (the caller logs it); nothing else may escape
        I.oblige(self.name(f"only_a_stream_read_error_escapes[{e.cls_name}]"),
                 z3.BoolVal(e.cls_name in ("AnyException", "CancelledError")))


def stream_outer_inv(I, phase):
    c = I.c12
    name = "C12._process_sse_stream.chunk_loop"
    buf = I.frame.vars.get("buffer")
    return [(f"{name}.lines_taken_plus_buffer_are_exactly_the_text_received",
             z3.And(V.is_str(buf), z3.Concat(c.g(I, "consumed"), Val.s(buf)) == c.g(I, "text_total"))),
            (f"{name}.no_complete_line_is_left_in_the_buffer", z3.Not(z3.Contains(Val.s(buf), NL))),
            (f"{name}.text_is_the_incremental_decoding_of_the_bytes", c.g(I, "text_total") == utf8_inc(c.g(I, "bytes_total")))]


def stream_inner_inv(I, phase):
    c = I.c12
    name = "C12._process_sse_stream.line_loop"
    buf = I.frame.vars.get("buffer")
    return [(f"{name}.lines_taken_plus_buffer_are_exactly_the_text_received",
             z3.And(V.is_str(buf), z3.Concat(c.g(I, "consumed"), Val.s(buf)) == c.g(I, "text_total"))),
            (f"{name}.text_is_the_incremental_decoding_of_the_bytes", c.g(I, "text_total") == utf8_inc(c.g(I, "bytes_total")))]


# --------------------------------------------------------------------------- (4) cleanup
class Cleanup(Contract):
    key = f"{TKEY}._cleanup"
    prop = "C12"
    covers = ("return",)

    def setup(self, I):
        I.c12 = self
        pend = I.fresh("pending")
        I.assume(z3.And(V.is_dict(pend), Val.dsize(pend) >= 0))
        self.fut_cid = I.ctx.env_class(FUTURE).cid
        I.dict_entry_hook = self.future_wf

        def mk(env, **kw):
            return E.new_env_object(I, env, **kw)
        self.sse_task = mk(TASK, finished=V.VBool(I.fresh_bool("t1_done")), awaited=V.FALSE, cancel_requested=V.FALSE)
        self.out_task = mk(TASK, finished=V.VBool(I.fresh_bool("t2_done")), awaited=V.FALSE, cancel_requested=V.FALSE)
        self.c1, self.c2 = mk(CLOSABLE, closed=V.FALSE), mk(CLOSABLE, closed=V.FALSE)
        self.s1, self.s2 = mk(CLOSABLE, closed=V.FALSE), mk(CLOSABLE, closed=V.FALSE)
        self.transport = I.new_object(klass(I), {
            "_pending_requests": pend, "_sse_task": self.sse_task, "_outgoing_task": self.out_task,
            "_sse_stream_context": V.NONE, "_incoming_send": self.s1, "_outgoing_send": self.s2,
            "_stream_client": self.c1, "_send_client": self.c2})
        self.pend = pend
        return [self.transport], {}

    def future_wf(self, I, D, k):
        rec = z3.Select(Val.dvals(D), k)
        o = Val.oid(rec)
        I.assume(z3.Implies(z3.Select(Val.dkeys(D), k),
                            z3.And(V.is_obj(rec), o > 0, o < 1_000_000, z3.Select(I.ctx.cls0, o) == self.fut_cid,
                                   V.is_bool(z3.Select(I.st.field("done_flag")[0], o)),
                                   z3.Select(I.st.field("done_flag")[1], o))))

    def post(self, I, result):
        def f(o, n):
            return E.gfield(I, o, n)
        pend, _ = I.get_field(self.transport, "_pending_requests")
        I.oblige(self.name("no_pending_request_left"), Val.dsize(pend) == 0)
        for nm, t in (("event_stream_task", self.sse_task), ("sender_task", self.out_task)):
            I.oblige(self.name(f"{nm}_is_finished_and_was_awaited_if_it_was_running"),
                     z3.And(V.truthy(f(t, "finished"))))
        for nm, c in (("stream_client", self.c1), ("send_client", self.c2), ("incoming_stream", self.s1),
                      ("outgoing_stream", self.s2)):
            I.oblige(self.name(f"{nm}_closed"), V.truthy(f(c, "closed")))

    def post_exc(self, I, e):
        I.oblige(self.name(f"cleanup_never_raises[{e.cls_name}]"), z3.BoolVal(False))


def cleanup_loop_inv(I, phase):
    """for future in self._pending_requests.values(): if not future.done(): future.cancel()"""
    if phase == "back":
        I.ghost["futures_cancelled"] = True
    return []


class CleanupDone(Cleanup):
    pass


class C12(Check):
    prop = "C12"
    level = "other"
    title = ("(1) __aenter__ proved to return only with an announced message endpoint and otherwise to raise after cleanup, "
             "under the rely that the event-stream task may announce / fail / stay silent while it waits; (2) the event "
             "stream parser proved to partition the incrementally decoded text into lines independently of chunking; "
             "(4) _cleanup proved to finish both tasks, close both clients and both streams and empty the pending table, "
             "cancelling pending futures before awaiting the tasks; (3) exactly-once delivery is NOT decided")
    design_ref = "section 7, C12"
    trusted = ["asyncio.wait_for(connected.wait()) under the rely: the event-stream task may set _message_url and the "
               "event, or only the event (its finally block), or nothing before the timeout",
               "httpx aiter_text() decodes incrementally (text so far == utf8_inc(bytes so far)); per-chunk decoding is "
               "not assumed to have this property",
               "asyncio.Task: awaiting a cancelled task returns once its coroutine finished; the sender coroutine only "
               "finishes if its pending future was cancelled (read from transport.py)",
               "sub-claim (3) exactly-once delivery across the POST reply / event stream race is not under contract: "
               "it needs a rely/guarantee proof over _pending_requests that was not built (DESIGN.md has the sketch)",
               "no new cancellation is delivered during cleanup"]

    def install(self, ctx):
        E.install_standard(ctx)
        pyd.install(ctx)
        for e in (EVENT, OPAQUE, CLOSABLE, TASK, FUTURE, SSE_RESPONSE, HOLDER):
            ctx.env_class(e)
        ctx.extern_handlers.update({
            "httpx.AsyncClient": lambda I, a, k, n: E.new_env_object(I, CLOSABLE, closed=V.FALSE),
            "httpx.Timeout": lambda I, a, k, n: E.new_env_object(I, OPAQUE),
            "anyio.create_memory_object_stream": lambda I, a, k, n: V.VTuple(
                [E.new_env_object(I, CLOSABLE, closed=V.FALSE), E.new_env_object(I, OPAQUE)]),
            "asyncio.create_task": lambda I, a, k, n: E.new_env_object(I, TASK, finished=V.FALSE, awaited=V.FALSE,
                                                                       cancel_requested=V.FALSE),
            "asyncio.wait_for": E.is_async(x_wait_for),
        })

    def modular(self):
        return {f"{TKEY}._handle_endpoint_event": HandlerModular(f"{TKEY}._handle_endpoint_event", "endpoint"),
                f"{TKEY}._handle_message_event": HandlerModular(f"{TKEY}._handle_message_event", "message"),
                f"{TKEY}._cleanup": CleanupModular()}

    def contracts(self):
        return [Enter(), ProcessStream(), Cleanup()]

    def loop_invariants(self):
        return {(f"{TKEY}._process_sse_stream", 0): stream_outer_inv, (f"{TKEY}._process_sse_stream", 1): stream_inner_inv,
                (f"{TKEY}._cleanup", 0): cleanup_loop_inv}

    def canaries(self):
        return [
            Canary("endpoint check removed (dead connection yielded)", SSE,
                   "                if not self._message_url:\n", "                if False:\n", "announced_message_endpoint"),
            Canary("send client not closed", SSE,
                   "            await self._send_client.aclose()\n            self._send_client = None\n", "            self._send_client = None\n",
                   "send_client_closed"),
            Canary("futures cancelled after the tasks are awaited", SSE,
                   "        # Cancel pending requests\n        if hasattr(self, \"_pending_requests\"):\n            for future in self._pending_requests.values():\n                if not future.done():\n                    future.cancel()\n            self._pending_requests.clear()\n",
                   "        # Cancel pending requests\n", "futures_are_cancelled_before"),
            Canary("per-chunk decoding of raw bytes", SSE, "async for chunk in self._sse_response.aiter_text():\n            if not chunk:\n                continue\n",
                   "async for chunk in self._sse_response.aiter_bytes():\n            if not chunk:\n                continue\n            chunk = chunk.decode(\"utf-8\", errors=\"replace\")\n",
                   "C12._process_sse_stream"),
            Canary("buffer dropped after each chunk", SSE, "                line, buffer = buffer.split(\"\\n\", 1)\n",
                   "                line, buffer = buffer.split(\"\\n\", 1)\n                buffer = buffer[1:]\n",
                   "C12._process_sse_stream"),
        ]

    def replay(self, name, model, rec):
        return None


    def bounded_stand_in(self, tier, undecided):
        from checks import native
        return native.stand_in(['C12.'], tier, undecided)

CHECK = C12()


# =========================================================================== (3) exactly-once delivery (rely/guarantee)
class LockEnv(E.EnvClass):
    """asyncio.Lock used as `async with`: acquiring is an await (other tasks may run), releasing is not"""
    name = "AsyncioLock"

    def __init__(self):
        self.methods = {"__aenter__": E.is_async(self.enter), "__aexit__": E.is_async(lambda I, r, a, k, exc=None: V.FALSE)}

    def enter(self, I, recv, args, kwargs):
        E.checkpoint_nofire(I)
        return recv


class PostResponse(E.EnvClass):
    name = "SsePostResponse"

    def __init__(self):
        self.methods = {"json": self.json}

    def json(self, I, recv, args, kwargs):
        c = I.c12
        if c.mode == "body_200":
            return c.answer
        if I.choose_n(2, "json_outcome") == 1:
            raise PyRaise(I.make_exc("JSONDecodeError", V.VStr("no json")), "JSONDecodeError")
        # any JSON value: an object bearing the request id (then it IS the server's single answer), an object with
        # another / no id (an error page), or no object at all.  Type invariant of an `id` member: string, integer, null.
        d = I.fresh("other_body")
        I.assume(z3.Or(V.is_dict(d), V.is_list(d), V.is_str(d), V.is_int(d), V.is_none(d), V.is_bool(d)))
        I.assume(z3.Implies(V.is_dict(d), Val.dsize(d) >= 0))
        idv = z3.Select(Val.dvals(d), K("id"))
        I.assume(z3.Implies(z3.And(V.is_dict(d), z3.Select(Val.dkeys(d), K("id"))),
                            z3.Or(V.is_int(idv), V.is_str(idv), V.is_none(idv))))
        return d


class SendClient(E.EnvClass):
    name = "SseSendClient"

    def __init__(self):
        self.methods = {"post": E.is_async(self.post)}

    def post(self, I, recv, args, kwargs):
        c = I.c12
        c.posts += 1
        if c.mode in ("event_then_ack", "ack_then_event"):
            I.ghost["answer_state"] = "in_flight"          # the server has the request: its stream answer may come now
        if c.mode == "ack_then_event":
            hooks, I.checkpoint_hooks = getattr(I, "checkpoint_hooks", []), []
            E.checkpoint_nofire(I)                          # the acknowledgement comes back first
            I.checkpoint_hooks = hooks
        else:
            E.checkpoint_nofire(I)                          # the reader may handle the event during the POST
        if c.mode == "exception":
            raise PyRaise(I.make_exc("AnyException", V.VStr(I.fresh("netmsg", S))), "AnyException")
        status = {"body_200": 200, "event_then_ack": 202, "ack_then_event": 202, "silence": 202}.get(c.mode)
        if status is None:
            st = I.fresh_int("status")
            I.assume(z3.And(st >= 100, st <= 599, st != 200, st != 202))
            sv = V.VInt(st)
        else:
            sv = V.VInt(status)
        return E.new_env_object(I, POST_RESPONSE, status_code=sv, text=V.VStr(I.fresh("body_text", S)))


LOCK, POST_RESPONSE, SEND_CLIENT = LockEnv(), PostResponse(), SendClient()


class ResolvableFuture(FutureEnv):
    name = "AsyncioFuture"

    def __init__(self):
        super().__init__()
        self.methods["set_result"] = self.set_result

    def set_result(self, I, recv, args, kwargs):
        I.set_attr(recv, "done_flag", V.TRUE)
        I.set_attr(recv, "result", args[0])
        I.set_attr(recv, "has_result", V.TRUE)
        return V.NONE

    def construct(self, I, args, kwargs, node):
        return E.new_env_object(I, FUTURE12, done_flag=V.FALSE, has_result=V.FALSE, result=V.NONE)


FUTURE12 = ResolvableFuture()


def reader_step(I):
    """guarantee G of the event-stream task (_handle_message_event), executed atomically at an await of the sender
    when the request's single stream answer arrives: if the request is pending, pop it and resolve its future (if not
    done) delivering nothing; otherwise deliver the event."""
    c = I.c12
    if I.ghost.get("answer_state") != "in_flight":
        return
    if I.choose_n(2, "stream_answer_arrives_now") == 1:
        return
    I.ghost["answer_state"] = "handled"
    P, _ = I.get_field(c.transport, "_pending_requests")
    key = c.mid_str
    if I.choose(z3.Select(Val.dkeys(P), key), "reader_finds_request_pending"):
        fut = z3.simplify(z3.Select(Val.dvals(P), key))
        newP = Val.dict(Val.did(P), z3.Store(Val.dkeys(P), key, False), z3.Store(Val.dvals(P), key, V.NONE),
                        Val.dsize(P) - 1)
        I.set_attr(c.transport, "_pending_requests", newP)
        done, _ = I.get_field(fut, "done_flag")
        if not I.choose(V.truthy(done), "future_already_done"):
            I.set_attr(fut, "done_flag", V.TRUE)
            I.set_attr(fut, "result", c.answer)
            I.set_attr(fut, "has_result", V.TRUE)
    else:
        c.deliver(I, c.answer)


def x_wait_for_future(I, args, kwargs, node):
    """asyncio.wait_for(future, timeout): returns the future's result; while blocked the reader may resolve it; on
    timeout the future is cancelled and TimeoutError raised.  Assumption from the property's modes: a stream answer,
    if there is one, arrives before the timeout."""
    c = I.c12
    fut = args[0]
    has, _ = I.get_field(fut, "has_result")
    if I.choose(V.truthy(has), "future_resolved_before_wait"):
        E.checkpoint_nofire(I)
        return I.get_field(fut, "result")[0]
    if I.ghost.get("answer_state") == "in_flight":
        # blocked; the answer arrives during the wait and the reader handles it (G)
        hooks, I.checkpoint_hooks = getattr(I, "checkpoint_hooks", []), []
        E.checkpoint_nofire(I)
        I.checkpoint_hooks = hooks
        I.ghost["answer_state"] = "handled"
        P, _ = I.get_field(c.transport, "_pending_requests")
        key = c.mid_str
        if I.choose(z3.Select(Val.dkeys(P), key), "reader_finds_request_pending"):
            newP = Val.dict(Val.did(P), z3.Store(Val.dkeys(P), key, False), z3.Store(Val.dvals(P), key, V.NONE),
                            Val.dsize(P) - 1)
            I.set_attr(c.transport, "_pending_requests", newP)
            popped = z3.simplify(z3.Select(Val.dvals(P), key))
            I.set_attr(popped, "done_flag", V.TRUE)
            I.set_attr(popped, "result", c.answer)
            I.set_attr(popped, "has_result", V.TRUE)
        else:
            c.deliver(I, c.answer)
        has2, _ = I.get_field(fut, "has_result")
        if I.choose(V.truthy(has2), "this_future_was_resolved"):
            return I.get_field(fut, "result")[0]
        # the awaited future is not the registered one any more: it can only time out
    E.checkpoint_nofire(I)
    I.set_attr(fut, "done_flag", V.TRUE)              # wait_for cancels the future on timeout
    I.throw("TimeoutError", "")


class RouteIncomingModular(Contract):
    """_route_incoming_message(d): delivers d (ghost `delivered`); never raises"""
    key = f"{TKEY}._route_incoming_message"

    def apply(self, I, args, kwargs, node):
        I.c12.deliver(I, args[1])
        E.checkpoint_nofire(I)
        return V.NONE


class SendRequest(Contract):
    """_send_message_via_http for a request, per answer mode, under the rely 'the event-stream task runs G at any
    await': exactly one message bearing the request id reaches the read stream."""
    key = f"{TKEY}._send_message_via_http"
    prop = "C12"
    covers = ("return",)

    def __init__(self, mode):
        self.mode = mode

    def name(self, clause):
        return f"C12._send_message_via_http.{clause}[{self.mode}]"

    def setup(self, I):
        I.c12 = self
        self.posts = 0
        self.delivered = []
        rid = I.fresh("request_id")
        I.assume(z3.Or(V.is_int(rid), V.is_str(rid)))
        self.rid = rid
        self.mid_str = P.to_str(I, rid)
        msg = I.fresh("message")
        I.assume(z3.And(V.is_dict(msg), Val.dsize(msg) >= 1, z3.Select(Val.dkeys(msg), K("id")),
                        z3.Select(Val.dvals(msg), K("id")) == rid))
        # the server's single answer to this request bears its id
        ans = I.fresh("answer")
        I.assume(z3.And(V.is_dict(ans), Val.dsize(ans) >= 1, z3.Select(Val.dkeys(ans), K("id")),
                        z3.Select(Val.dvals(ans), K("id")) == rid))
        self.answer = ans
        pend = I.fresh("pending")
        I.assume(z3.And(V.is_dict(pend), Val.dsize(pend) >= 0, z3.Not(z3.Select(Val.dkeys(pend), self.mid_str))))
        timeout = I.fresh("timeout")
        I.assume(z3.And(V.is_real(timeout), Val.r(timeout) > 0))
        url = I.fresh("url", S)
        I.assume(z3.Length(url) > 0)                 # connected transport (live-or-raise, sub-claim 1)
        self.transport = I.new_object(klass(I), {
            "_send_client": E.new_env_object(I, SEND_CLIENT), "_message_url": V.VStr(url),
            "_pending_requests": pend, "_message_lock": E.new_env_object(I, LOCK), "timeout": timeout})
        I.ghost["answer_state"] = "none"
        I.checkpoint_hooks = [reader_step]
        return [self.transport, msg], {}

    def deliver(self, I, d):
        self.delivered.append(d)

    def count_for_request(self):
        n = z3.IntVal(0)
        for d in self.delivered:
            n = n + z3.If(z3.And(V.is_dict(d), z3.Select(Val.dkeys(d), K("id")), z3.Select(Val.dvals(d), K("id")) == self.rid), 1, 0)
        return n

    def post(self, I, result):
        # a stream answer still in flight when the sender has finished is handled by the reader afterwards: the
        # request is no longer pending, so G delivers it
        P_, _ = I.get_field(self.transport, "_pending_requests")
        late = 1 if I.ghost.get("answer_state") == "in_flight" else 0
        total = self.count_for_request() + late
        I.oblige(self.name("exactly_one_message_bearing_the_request_id_is_delivered"), total == 1,
                 watch={"request_id": self.rid, "delivered": V.VList(self.delivered) if self.delivered else V.VList([])})
        I.oblige(self.name("request_is_not_left_pending"), z3.Not(z3.Select(Val.dkeys(P_), self.mid_str)))
        I.oblige(self.name("exactly_one_post"), z3.BoolVal(self.posts == 1))

    def post_exc(self, I, e):
        I.oblige(self.name(f"no_exception_escapes[{e.cls_name}]"), z3.BoolVal(e.cls_name == "CancelledError"))


class HandleMessageEvent(Contract):
    """_handle_message_event(data): the guarantee G the exactly-once argument relies on, proved against the body: a
    message event bearing the id of a PENDING request (whatever the id: 0 and "" included, int ids through their str
    key) removes that request from the table and resolves its future with the message, delivering nothing; any other
    message event is delivered to the read stream; the table is otherwise untouched; never raises."""
    key = f"{TKEY}._handle_message_event"
    prop = "C12"
    covers = ("return",)

    def setup(self, I):
        I.c12 = self
        self.delivered = []
        s = I.fresh("event_data", S)
        I.assume(ST.json_ok(s))
        d = ST.json_val(s)
        I.assume(z3.And(V.is_dict(d), Val.dsize(d) >= 1))
        idv = z3.Select(Val.dvals(d), K("id"))
        has_id = z3.Select(Val.dkeys(d), K("id"))
        I.assume(z3.Implies(has_id, z3.Or(V.is_int(idv), V.is_str(idv), V.is_none(idv))))
        self.d, self.idv, self.has_id = d, idv, has_id
        pend = I.fresh("pending")
        I.assume(z3.And(V.is_dict(pend), Val.dsize(pend) >= 0))
        self.pend = pend
        # the entry the event may refer to is a live future (table well-formedness, ground instance at that key)
        self.key_str = P.to_str(I, idv)
        fut = z3.Select(Val.dvals(pend), self.key_str)
        self.fut = E.new_env_object(I, FUTURE12, done_flag=V.FALSE, has_result=V.FALSE, result=V.NONE)
        I.assume(z3.Implies(z3.Select(Val.dkeys(pend), self.key_str), z3.And(fut == self.fut, Val.dsize(pend) >= 1)))
        self.transport = I.new_object(klass(I), {"_pending_requests": pend, "_message_lock": E.new_env_object(I, LOCK)})
        return [self.transport, V.VStr(s)], {}

    def deliver(self, I, d):
        self.delivered.append(d)

    def post(self, I, result):
        now, _ = I.get_field(self.transport, "_pending_requests")
        answered = z3.And(self.has_id, z3.Not(V.is_none(self.idv)), z3.Select(Val.dkeys(self.pend), self.key_str))
        n = len(self.delivered)
        res, hr = I.get_field(self.fut, "has_result")
        val, _ = I.get_field(self.fut, "result")
        q = z3.String("hme!q")
        I.oblige(self.name("an_event_for_a_pending_request_resolves_its_future_and_is_not_delivered"),
                 z3.Implies(answered, z3.And(z3.BoolVal(n == 0), z3.Not(z3.Select(Val.dkeys(now), self.key_str)),
                                             V.truthy(res), val == self.d)), watch={"event": self.d, "pending": self.pend})
        I.oblige(self.name("any_other_event_is_delivered_exactly_once"),
                 z3.Implies(z3.Not(answered), z3.And(z3.BoolVal(n == 1), (self.delivered[0] == self.d) if n == 1 else z3.BoolVal(False),
                                                     now == self.pend)), watch={"event": self.d})
        I.oblige(self.name("other_pending_requests_are_untouched"),
                 z3.ForAll([q], z3.Implies(q != self.key_str,
                                           z3.And(z3.Select(Val.dkeys(now), q) == z3.Select(Val.dkeys(self.pend), q),
                                                  z3.Select(Val.dvals(now), q) == z3.Select(Val.dvals(self.pend), q)))))

    def post_exc(self, I, e):
        I.oblige(self.name(f"never_raises[{e.cls_name}]"), z3.BoolVal(e.cls_name == "CancelledError"))


MODES = ("body_200", "event_then_ack", "ack_then_event", "silence", "other_status", "exception")
_c12_contracts = C12.contracts
_c12_install = C12.install
_c12_modular = C12.modular
_c12_canaries = C12.canaries


def _contracts12(self):
    return _c12_contracts(self) + [SendRequest(m) for m in MODES] + [HandleMessageEvent()]


def _install12(self, ctx):
    _c12_install(self, ctx)
    for e in (LOCK, POST_RESPONSE, SEND_CLIENT, FUTURE12):
        ctx.env_class(e)
    base_wait_for = ctx.extern_handlers["asyncio.wait_for"]

    def wait_for(I, args, kwargs, node):
        if isinstance(getattr(I, "c12", None), SendRequest):
            return x_wait_for_future(I, args, kwargs, node)
        return base_wait_for(I, args, kwargs, node)
    ctx.extern_handlers["asyncio.wait_for"] = E.is_async(wait_for)
    ctx.extern_handlers["asyncio.Future"] = lambda I, a, k, n: FUTURE12.construct(I, a, k, n)
    ctx.extern_handlers["traceback.print_exc"] = lambda I, a, k, n: V.NONE
    ctx.extern_handlers.setdefault("json.loads", lambda I, a, k, n: ST.LoadsModular().apply(I, a, k, n))


def _modular12(self):
    m = _c12_modular(self)
    m[f"{TKEY}._route_incoming_message"] = RouteIncomingModular()
    m[f"{ST.FASTJSON}::loads"] = ST.LoadsModular()
    return m


def _canaries12(self):
    return _c12_canaries(self) + [
        Canary("future registered after the POST", SSE,
               "                async with self._message_lock:\n                    self._pending_requests[message_id] = future\n                    logger.debug(f\"Added pending request: {message_id}\")\n\n                try:\n                    # Send the request\n                    response = await self._send_client.post(\n                        self._message_url, json=message_dict, headers=headers\n                    )\n",
               "                try:\n                    # Send the request\n                    response = await self._send_client.post(\n                        self._message_url, json=message_dict, headers=headers\n                    )\n                    async with self._message_lock:\n                        self._pending_requests[message_id] = future\n",
               "exactly_one_message"),
        Canary("200 body routed twice", SSE,
               "                        # Route response to incoming stream\n                        await self._route_incoming_message(response_data)\n",
               "                        # Route response to incoming stream\n                        await self._route_incoming_message(response_data)\n                        await self._route_incoming_message(response_data)\n",
               "exactly_one_message"),
        Canary("pending entry never removed", SSE,
               "                    async with self._message_lock:\n                        self._pending_requests.pop(message_id, None)\n",
               "                    pass\n", "not_left_pending"),
    ]


C12.contracts = _contracts12
C12.install = _install12
C12.modular = _modular12
C12.canaries = _canaries12
CHECK = C12()
