"""C17 - JSON encoding is backend-independent and always a single NDJSON frame."""
from __future__ import annotations

import z3

from pyvc import vals as V
from pyvc.vals import Val
from pyvc import prelude as P
from pyvc import envs as E
from pyvc.core import PyRaise
from pyvc.check import Check, Canary, Lemma, AuditResult
from pyvc.verify import Contract

FASTJSON = "src/chuk_mcp/protocol/fast_json.py"
S = z3.StringSort()
NL = z3.StringVal("\n")
# ---- codec contract (assumed; audited below against both real codecs)
orj_ok = z3.Function("orjson_can_encode", Val, z3.BoolSort())
orj_text = z3.Function("orjson_compact_text", Val, S)
orj_text_indent = z3.Function("orjson_indented_text", Val, S)
std_ok = z3.Function("stdlib_can_encode", Val, z3.BoolSort())
std_text = z3.Function("stdlib_default_text", Val, S)
orj_parse_ok = z3.Function("orjson_can_parse", Val, z3.BoolSort())
orj_parse = z3.Function("orjson_parse", Val, Val)
std_parse_ok = z3.Function("stdlib_can_parse", S, z3.BoolSort())
std_parse = z3.Function("stdlib_parse", S, Val)
OPT_INDENT_2 = 1


def x_orjson_dumps(I, args, kwargs, node):
    obj = args[0]
    opt = z3.simplify(kwargs.get("option", V.VInt(0)))
    I.ghost.setdefault("orjson_dumps_options", []).append(opt)
    if not I.choose(orj_ok(obj), "orjson_dumps_ok"):
        raise PyRaise(I.make_exc("AnyException", V.VStr("orjson: type is not JSON serializable / integer exceeds 64-bit")),
                      "AnyException")
    o = z3.simplify(Val.i(opt)) if V.ctor_name(opt) == "int" else None
    if o is not None and z3.is_int_value(o) and o.as_long() == 0:
        t = orj_text(obj)
        I.assume(z3.Not(z3.Contains(t, NL)))            # compact output has no raw line break (audited)
        return V.VBytes(P.utf8_enc(t))
    return V.VBytes(P.utf8_enc(orj_text_indent(obj)))


def x_std_dumps(I, args, kwargs, node):
    obj = args[0]
    I.ghost.setdefault("std_dumps_kwargs", []).append(dict(kwargs))
    if not I.choose(std_ok(obj), "stdlib_dumps_ok"):
        raise PyRaise(I.make_exc("TypeError", V.VStr("Object is not JSON serializable")), "TypeError")
    effective = {k: v for k, v in kwargs.items() if not (k == "indent" and V.ctor_name(z3.simplify(v)) == "none")}
    if effective:           # (indent=None is the stdlib's default: the same text as without the option)
        return V.VStr(I.fresh("std_text_with_options", S))
    t = std_text(obj)
    I.assume(z3.Not(z3.Contains(t, NL)))                # default separators, no indent: no raw line break (audited)
    return V.VStr(t)


def x_orjson_loads(I, args, kwargs, node):
    s = args[0]
    I.ghost.setdefault("orjson_loads_args", []).append(s)
    if I.choose(orj_parse_ok(s), "orjson_loads_ok"):
        return orj_parse(s)
    raise PyRaise(I.make_exc("JSONDecodeError", V.VStr("orjson: invalid / too deeply nested")), "JSONDecodeError")


def x_std_loads(I, args, kwargs, node):
    s = args[0]
    I.ghost.setdefault("std_loads_args", []).append(s)
    I.ghost.setdefault("std_loads_kwargs", []).append(dict(kwargs))
    if not I.choose(V.is_str(s), "std_loads_arg_is_str"):
        # stdlib json.loads also accepts bytes (detects the encoding); the library never relies on that
        if I.choose(V.is_bytes(s), "std_loads_arg_is_bytes"):
            return I.fresh("std_parsed_bytes")
        I.throw("TypeError", "the JSON object must be str, bytes or bytearray")
    if I.choose(std_parse_ok(Val.s(s)), "stdlib_loads_ok"):
        return std_parse(Val.s(s))
    raise PyRaise(I.make_exc("JSONDecodeError", V.VStr("Expecting value")), "JSONDecodeError")


class Dumps(Contract):
    key = f"{FASTJSON}::dumps"
    prop = "C17"

    def __init__(self, has_orjson, explicit_none=False):
        self.has_orjson = has_orjson
        self.explicit_none = explicit_none      # dumps(obj, indent=None): "no indentation" said explicitly (pydantic-less
                                                # model_dump_json passes it) must be the same compact encoding

    def name(self, clause):
        return f"C17.dumps.{clause}[orjson={'yes' if self.has_orjson else 'no'}{',indent=None' if self.explicit_none else ''}]"

    @property
    def covers(self):
        return ("return", "raise:TypeError")

    def setup(self, I):
        I.ctx.global_overrides = {("chuk_mcp.protocol.fast_json", "HAS_ORJSON"): V.VBool(self.has_orjson)}
        self.obj = I.fresh("obj")
        return [self.obj], ({"indent": V.NONE} if self.explicit_none else {})

    def post(self, I, result):
        obj = self.obj
        if self.has_orjson:
            want = z3.If(orj_ok(obj), orj_text(obj), std_text(obj))
            opts = I.ghost.get("orjson_dumps_options", [])
            I.oblige(self.name("compact_call_uses_no_indent_or_newline_option"),
                     z3.And([o == V.VInt(0) for o in opts]) if opts else z3.BoolVal(False))
        else:
            want = std_text(obj)
            I.oblige(self.name("fast_backend_not_touched_when_absent"),
                     z3.BoolVal(not I.ghost.get("orjson_dumps_options")))
        I.oblige(self.name("returns_the_codec_text_decoded_as_utf8"), result == V.VStr(want), watch={"obj": obj})
        I.oblige(self.name("encoding_is_one_ndjson_frame"), z3.And(V.is_str(result), z3.Not(z3.Contains(Val.s(result), NL))))
        for kw in I.ghost.get("std_dumps_kwargs", []):
            same = (kw == {}) if not self.explicit_none else \
                (set(kw) <= {"indent"} and all(V.ctor_name(z3.simplify(v)) == "none" for v in kw.values()))
            I.oblige(self.name("stdlib_called_with_the_same_options"), z3.BoolVal(bool(same)))

    def post_exc(self, I, e):
        # encoding may only fail when the stdlib codec cannot encode the value either
        I.oblige(self.name(f"fails_only_when_no_backend_can_encode[{e.cls_name}]"),
                 z3.And(z3.BoolVal(e.cls_name == "TypeError"), z3.Not(std_ok(self.obj))), watch={"obj": self.obj})


class Loads(Contract):
    key = f"{FASTJSON}::loads"
    prop = "C17"

    def __init__(self, has_orjson, arg):
        self.has_orjson, self.arg = has_orjson, arg

    def name(self, clause):
        return f"C17.loads.{clause}[orjson={'yes' if self.has_orjson else 'no'},{self.arg}]"

    covers = ("return", "raise:JSONDecodeError")

    def setup(self, I):
        I.ctx.global_overrides = {("chuk_mcp.protocol.fast_json", "HAS_ORJSON"): V.VBool(self.has_orjson)}
        if self.arg == "str":
            s = I.fresh("text")
            I.assume(V.is_str(s))
            self.text = Val.s(s)
        else:
            t = I.fresh("text", S)
            s = V.VBytes(P.utf8_enc(t))               # the bytes are the utf-8 encoding of some text
            self.text = t
        self.s = s
        return [s], {}

    def post(self, I, result):
        if self.has_orjson:
            want = z3.If(orj_parse_ok(self.s), orj_parse(self.s), std_parse(self.text))
        else:
            want = std_parse(self.text)
        I.oblige(self.name("returns_the_codec_value_of_the_same_text"), result == want)
        for a in I.ghost.get("std_loads_args", []):
            I.oblige(self.name("stdlib_receives_the_text_as_str"), a == V.VStr(self.text))
        for kw in I.ghost.get("std_loads_kwargs", []):
            # the codec contract (each parser inverts each printer) is about the PLAIN parsers: hooks such as parse_int /
            # parse_float / object_hook change what the stdlib returns
            I.oblige(self.name("stdlib_parser_called_without_value_changing_hooks"), z3.BoolVal(not kw))

    def post_exc(self, I, e):
        I.oblige(self.name(f"fails_only_when_no_backend_can_parse[{e.cls_name}]"),
                 z3.And(z3.BoolVal(e.cls_name == "JSONDecodeError"), z3.Not(std_parse_ok(self.text))))


def lemma_round_trip():
    """the four backend pairs round-trip: from the codec contract  loads_X(dumps_Y(v)) == v  on JSON values with
    64-bit integers (assumed, audited), fast_json.loads o fast_json.dumps == id under each backend and across."""
    v = z3.Const("jv", Val)
    json64 = z3.Function("is_json_value_with_64bit_ints", Val, z3.BoolSort())
    asm = [json64(v)]
    # codec contract, instantiated at v: every codec can encode v, and each parser inverts each printer
    asm += [orj_ok(v), std_ok(v)]
    for text in (orj_text(v), std_text(v)):
        asm += [orj_parse_ok(V.VStr(text)), orj_parse(V.VStr(text)) == v, std_parse_ok(text), std_parse(text) == v]
    # the proved postconditions of dumps / loads (str argument) under both configurations
    d_fast = z3.If(orj_ok(v), orj_text(v), std_text(v))
    d_slow = std_text(v)

    def l_fast(t):
        return z3.If(orj_parse_ok(V.VStr(t)), orj_parse(V.VStr(t)), std_parse(t))

    def l_slow(t):
        return std_parse(t)
    goal = z3.And([l(d) == v for l in (l_fast, l_slow) for d in (d_fast, d_slow)])
    return asm, goal


class C17(Check):
    prop = "C17"
    level = "other"
    title = ("dispatch of fast_json.dumps/loads proved under both backend configurations against an assumed codec "
             "contract: compact options only, stdlib fallback returns the stdlib result with the same options, text "
             "decoded as UTF-8, str/bytes handed on unchanged; round trip across the four backend pairs is a lemma over "
             "the codec contract, which is audited (bounded) against the real orjson and json")
    design_ref = "section 7, C17"
    trusted = ["codec contract (the substance of this property, assumed): orjson/json compact output contains no raw "
               "line break; each parser inverts each printer on JSON values whose integers fit in 64 bits - audited "
               "bounded against the real codecs (see audits)",
               "bytes.decode('utf-8') of the UTF-8 encoding of a text returns the text"]

    def install(self, ctx):
        E.install_standard(ctx)
        from checks import C05, C06
        if getattr(ctx, "_c17_installing", False):
            return                      # C06 composes this check's Dumps contract and calls back into this install
        ctx._c17_installing = True
        from checks import stdio as ST
        ST.install(ctx)
        ctx.dynamic_call_hook = C06.dynamic_call
        C05.CHECK.install(ctx)
        ctx.extern_handlers.update({"orjson.dumps": x_orjson_dumps, "orjson.loads": x_orjson_loads,
                                    "json.dumps": x_std_dumps, "json.loads": x_std_loads})
        ctx.extern_values = {"orjson.OPT_INDENT_2": V.VInt(OPT_INDENT_2)}
        ctx._c17_installing = False

    def modular(self):
        from checks import C05
        # nested calls of loads inside the reader use its contract; loads itself is verified top-level below
        from checks import C06
        m = dict(C06.CHECK.modular())
        m.update(C05.CHECK.modular())
        return m

    def loop_invariants(self):
        from checks import C05, C06
        inv = dict(C06.CHECK.loop_invariants())
        inv.update(C05.CHECK.loop_invariants())
        return inv

    def contracts(self):
        from checks import C05
        # "every encoded message is exactly one NDJSON frame" is only useful if the reader frames on '\n' alone (the
        # fast backend writes U+0085/U+2028/U+2029 raw): the stdio reader's framing contract (C05) is re-verified here
        return [Dumps(True), Dumps(False), Dumps(True, True), Dumps(False, True), Loads(True, "str"), Loads(True, "bytes"), Loads(False, "str"),
                Loads(False, "bytes"), C05.StdoutReader(), self.writer_contract()]

    def writer_contract(self):
        # ... and only if the writer sends the encoded text as it is: one line, nothing removed from inside string values
        # (the stdio writer's per-write contract, C06)
        from checks import C06
        return C06.StdinWriter()

    def lemmas(self):
        return [Lemma("C17.lemma.all_four_backend_pairs_round_trip", lemma_round_trip)]

    def canaries(self):
        return [
            Canary("always indent", FASTJSON, '            if kwargs.get("indent"):\n                options |= _orjson.OPT_INDENT_2\n\n            return _orjson.dumps(obj, option=options)',
                   '            options |= _orjson.OPT_INDENT_2\n\n            return _orjson.dumps(obj, option=options)', "C17.dumps"),
            Canary("decode as ascii", FASTJSON, 'return _orjson.dumps(obj, option=options).decode("utf-8")',
                   'return _orjson.dumps(obj, option=options).decode("ascii")', "C17.dumps"),
            Canary("bytes not decoded on the stdlib path", FASTJSON,
                   "        # Use stdlib json\n        if isinstance(s, bytes):\n            s = s.decode(\"utf-8\")\n", "        # Use stdlib json\n",
                   "stdlib_receives"),
            Canary("no stdlib fallback when orjson refuses a value", FASTJSON,
                   '            logger.debug(f"orjson failed, falling back to stdlib json: {e}")\n            return _stdlib_json.dumps(obj, **kwargs)',
                   '            logger.debug(f"orjson failed, falling back to stdlib json: {e}")\n            if not kwargs:\n                raise\n            return _stdlib_json.dumps(obj, **kwargs)',
                   "fails_only_when"),
            Canary("orjson decode errors are final", FASTJSON,
                   "            return _orjson.loads(s)\n        except Exception as e:",
                   "            return _orjson.loads(s)\n        except ValueError:\n            raise\n        except Exception as e:", "fails_only_when"),
        ]

    def audits(self, tier):
        return [lambda: codec_audit(tier)]

    def replay(self, name, model, rec):
        return None


def codec_audit(tier):
    """bounded audit of the assumed codec contract against the real orjson and json, all four pairs"""
    import json as std
    try:
        import orjson
    except ImportError:
        orjson = None
    scalars = [None, True, False, 0, -1, 1, 2**53 + 1, 2**63 - 1, -2**63, 2**64 - 1, 0.5, -0.0, 1e308, 5e-324,
               "", "a", "\n", "\r\n", "\u0085", " ", " ", "\x00", "\x1f", "é", "😀", "\"q\\"]
    vals = list(scalars)
    for a in scalars[:14]:
        vals.append([a])
        vals.append({"k": a})
        vals.append({"é\n": [a, {"x": a}]})
    if tier == "thorough":
        for a in scalars:
            for b in scalars:
                vals.append([a, {"k": b, "l": [b]}])
    printers = {"stdlib": lambda v: std.dumps(v)}
    parsers = {"stdlib": lambda t: std.loads(t)}
    if orjson is not None:
        printers["orjson"] = lambda v: orjson.dumps(v).decode("utf-8")
        parsers["orjson"] = lambda t: orjson.loads(t)
    n = 0
    for v in vals:
        for pn, pr in printers.items():
            t = pr(v)
            n += 1
            if "\n" in t or "\r" in t:
                return AuditResult("codec contract", False, n, f"{pn} output of {v!r} contains a raw line break")
            for qn, pa in parsers.items():
                back = pa(t)
                if repr(back) != repr(v) and not (back == v and type(back) is type(v)):
                    return AuditResult("codec contract", False, n, f"{qn}(loads) o {pn}(dumps) changed {v!r} into {back!r}")
    return AuditResult("codec contract: no raw line break, every parser inverts every printer", True, n,
                       bound=f"{len(vals)} JSON values (64-bit boundaries, C0 controls, U+0085/2028/2029, astral, nesting <= 3) x "
                             f"{len(printers)} printers x {len(parsers)} parsers")


def _bounded_stand_in17(self, tier, undecided):
    from checks import native
    return native.stand_in(['C17.', 'C05.'], tier, undecided)


C17.bounded_stand_in = _bounded_stand_in17
CHECK = C17()
