"""Bounded native searches for the HTTP carriers (C11 Streamable HTTP, C12 legacy SSE): the REAL transports driven through
httpx.MockTransport / scripted event streams and compared with oracles written from the property text.  Inputs listed as
known findings of C11 (JSON object that is no message, non-object result) are deliberately not part of the grids.  See native_stdio.py for the role of these searches."""
from __future__ import annotations

import asyncio
import importlib
import itertools
import json
import logging
from unittest import mock


def _quiet():
    logging.disable(logging.CRITICAL)


def _norm(m):
    return dict(id=getattr(m, "id", None), method=getattr(m, "method", None), params=getattr(m, "params", None),
                result=getattr(m, "result", None), error=getattr(m, "error", None))


def _want(d):
    return dict(id=d.get("id"), method=d.get("method"), params=d.get("params"), result=d.get("result"), error=d.get("error"))


# ------------------------------------------------------------------------------------------------ C11
def _sse(events, nl="\n", space=" ", with_event=True, comments=False, ascii_only=True):
    out = []
    for k, payload in enumerate(events):
        if comments:
            out.append(": keepalive")
            out.append(f"id:{space}{k}")
        if with_event:
            out.append(f"event:{space}message")
        out.append(f"data:{space}{json.dumps(payload, ensure_ascii=ascii_only)}")
        out.append("")
    return nl.join(out) + nl


def c11_behaviours():
    """(label, respond(request_json) -> httpx.Response | Exception, expect(request) -> list of wire dicts | 'one_terminal')"""
    import httpx
    notif = {"jsonrpc": "2.0", "method": "notifications/progress", "params": {"progress": 1, "progressToken": "t"}}

    def resp(rid):
        return {"jsonrpc": "2.0", "id": rid, "result": {"text": "café   ok", "n": [1, None]}}

    def err(rid):
        return {"jsonrpc": "2.0", "id": rid, "error": {"code": -32601, "message": "nope"}}
    B = []
    B.append(("200 json response", lambda r: httpx.Response(200, json=resp(r["id"])), lambda r: [resp(r["id"])]))
    B.append(("200 json error reply", lambda r: httpx.Response(200, json=err(r["id"])), lambda r: [err(r["id"])]))
    B.append(("200 json charset", lambda r: httpx.Response(200, content=json.dumps(resp(r["id"])).encode(),
                                                            headers={"content-type": "application/json; charset=utf-8"}),
              lambda r: [resp(r["id"])]))
    B.append(("200 json batch array: 2 notifications + response", lambda r: httpx.Response(200, json=[notif, notif, resp(r["id"])]),
              lambda r: [notif, notif, resp(r["id"])]))
    B.append(("200 json batch array with one member", lambda r: httpx.Response(200, json=[resp(r["id"])]), lambda r: [resp(r["id"])]))
    for nl, space, with_event, comments in itertools.product(("\n", "\r\n"), (" ", ""), (True, False), (False, True)):
        lab = f"200 sse nl={nl!r} space={space!r} event_field={with_event} comments={comments}"
        B.append((lab + " [response]",
                  (lambda nl, space, we, cm: lambda r: httpx.Response(
                      200, content=_sse([resp(r["id"])], nl, space, we, cm).encode(), headers={"content-type": "text/event-stream"}))(nl, space, with_event, comments),
                  lambda r: [resp(r["id"])]))
        B.append((lab + " [2 notifications + response]",
                  (lambda nl, space, we, cm: lambda r: httpx.Response(
                      200, content=_sse([notif, notif, resp(r["id"])], nl, space, we, cm).encode(),
                      headers={"content-type": "text/event-stream"}))(nl, space, with_event, comments),
                  lambda r: [notif, notif, resp(r["id"])]))
    def uni(rid):
        return {"jsonrpc": "2.0", "id": rid, "result": {"text": "a\u2028b\u0085c\u2029d \U0001f600 e\u0301"}}
    B.append(("200 sse raw unicode separators inside the payload",
              lambda r: httpx.Response(200, content=_sse([notif, uni(r["id"])], ascii_only=False).encode("utf-8"),
                                       headers={"content-type": "text/event-stream"}),
              lambda r: [notif, uni(r["id"])]))
    B.append(("200 json raw unicode separators", lambda r: httpx.Response(
        200, content=json.dumps(uni(r["id"]), ensure_ascii=False).encode("utf-8"), headers={"content-type": "application/json"}),
              lambda r: [uni(r["id"])]))
    B.append(("200 sse: data-less typed event, then an event without event field",
              lambda r: httpx.Response(200, content=("event: ping\n\ndata: " + json.dumps(resp(r["id"])) + "\n\n").encode(),
                                       headers={"content-type": "text/event-stream"}),
              lambda r: [resp(r["id"])]))
    B.append(("200 sse: comment-only block and empty data-less events between two messages",
              lambda r: httpx.Response(200, content=(": hi\n\nevent: message\n\nevent: message\ndata: " + json.dumps(notif)
                                                     + "\n\n\n\ndata: " + json.dumps(resp(r["id"])) + "\n\n").encode(),
                                       headers={"content-type": "text/event-stream"}),
              lambda r: [notif, resp(r["id"])]))
    for st in (400, 401, 404, 500, 503):
        B.append((f"{st} text body", (lambda st: lambda r: httpx.Response(st, text="boom"))(st), lambda r: "one_terminal_error"))
        B.append((f"{st} json body", (lambda st: lambda r: httpx.Response(st, json={"detail": "boom"}))(st), lambda r: "one_terminal_error"))
    B.append(("200 json truncated", lambda r: httpx.Response(200, content=b'{"jsonrpc":"2.0","id":', headers={"content-type": "application/json"}),
              lambda r: "one_terminal_error"))
    B.append(("200 json not json", lambda r: httpx.Response(200, content=b"<html>", headers={"content-type": "application/json"}),
              lambda r: "one_terminal_error"))
    B.append(("200 other content type, garbage", lambda r: httpx.Response(200, content=b"<html>", headers={"content-type": "text/html"}),
              lambda r: "one_terminal"))
    B.append(("202 empty", lambda r: httpx.Response(202), lambda r: "one_terminal"))
    B.append(("204 empty", lambda r: httpx.Response(204), lambda r: "one_terminal"))
    B.append(("connect error", lambda r: httpx.ConnectError("connection refused"), lambda r: "one_terminal_error"))
    B.append(("read timeout", lambda r: httpx.ReadTimeout("timed out"), lambda r: "one_terminal_error"))
    B.append(("protocol error", lambda r: httpx.RemoteProtocolError("peer closed"), lambda r: "one_terminal_error"))
    return B


def _drain(recv):
    import anyio
    out = []
    while True:
        try:
            out.append(recv.receive_nowait())
        except (anyio.WouldBlock, anyio.EndOfStream):
            return out


async def _c11_run(script, requests):
    """script: list of respond functions, one per POST; returns (posts, delivered per request)"""
    import httpx
    tm = importlib.import_module("chuk_mcp.transports.http.transport")
    pm = importlib.import_module("chuk_mcp.transports.http.parameters")
    posts = []

    def handler(request):
        body = json.loads(request.content)
        k = len(posts)
        posts.append(dict(headers={k2.lower(): v for k2, v in request.headers.items()}, json=body))
        r = script[k](body)
        if isinstance(r, Exception):
            raise r
        return r
    real = httpx.AsyncClient
    client_kwargs = []

    def factory(*a, **kw):
        kw.pop("transport", None)
        client_kwargs.append(dict(kw))
        return real(*a, transport=httpx.MockTransport(handler), **kw)
    t = tm.StreamableHTTPTransport(pm.StreamableHTTPParameters(url="http://mcp.test/mcp", timeout=2.0))
    per_request = []
    with mock.patch.object(tm.httpx, "AsyncClient", factory):
        async with t:
            for req in requests:
                await asyncio.wait_for(t._send_message_internal(req), timeout=10)
                per_request.append(_drain(t._incoming_recv))
    t.client_kwargs = client_kwargs
    return posts, per_request, t


def _judge(label, req, expect, got):
    rid = req.get("id")
    if rid is None:
        bad = [m for m in got if _norm(m)["id"] is not None and _norm(m)["method"] is None]
        return None if not bad else (f"{len(bad)} message(s) carrying an id for a notification: {[_norm(m) for m in bad]}",
                                     "nothing carrying an id")
    e = expect(req)
    n = [_norm(m) for m in got]
    if isinstance(e, list):
        want = [_want(d) for d in e]
        return None if n == want else (str(n)[:500], str(want)[:500])
    terminal = [x for x in n if x["id"] == rid and type(x["id"]) is type(rid) and x["method"] is None]
    if len(n) != 1 or len(terminal) != 1:
        return (str(n)[:500], "exactly one synthesised terminal message carrying the request id")
    if e == "one_terminal_error" and not (isinstance(terminal[0]["error"], dict) and isinstance(terminal[0]["error"].get("code"), int)):
        return (str(n)[:500], "one error message with the request id")
    return None


def search_c11(tier="quick"):
    import httpx
    _quiet()
    B = c11_behaviours()
    n = 0
    reqs = [{"jsonrpc": "2.0", "id": 7, "method": "tools/list"}, {"jsonrpc": "2.0", "id": "abc", "method": "ping"},
            {"jsonrpc": "2.0", "method": "notifications/initialized"}]
    # every behaviour on its own, for an int id, a str id and a notification
    for (label, respond, expect), req in itertools.product(B, reqs):
        n += 1
        try:
            posts, per, _t = asyncio.run(_c11_run([respond], [req]))
        except BaseException as ex:      # noqa: BLE001
            return dict(reproduced=True, input=dict(server=label, request=req), observed=f"{type(ex).__name__}: {ex}",
                        required="no exception escapes the sender")
        if len(posts) != 1:
            return dict(reproduced=True, input=dict(server=label, request=req), observed=f"{len(posts)} POSTs", required="exactly one POST")
        for kw in _t.client_kwargs:
            to = kw.get("timeout", httpx.Timeout(5.0))
            to = to if isinstance(to, httpx.Timeout) else httpx.Timeout(to)
            phases = dict(connect=to.connect, read=to.read, write=to.write, pool=to.pool)
            if any(v is None for v in phases.values()):
                return dict(reproduced=True, input=dict(server="a server that stalls in the unbounded phase", request=req),
                            observed=f"httpx timeouts {phases}", required="every phase of the request has a finite timeout")
        j = _judge(label, req, expect, per[0])
        if j:
            return dict(reproduced=True, input=dict(server=label, request=req), observed=j[0], required=j[1], cases=n)
    # sequences: a failure never prevents later requests; the most recent session id is carried
    ok_b = B[0]
    fails = [b for b in B if b[0] in ("500 text body", "connect error", "200 json not json", "read timeout")]
    seqs = [[f, ok_b] for f in fails] + [[f, g, ok_b] for f, g in itertools.product(fails, fails)]
    if tier != "thorough":
        seqs = seqs[:10]
    for seq in seqs:
        n += 1
        rs = [{"jsonrpc": "2.0", "id": k + 1, "method": "ping"} for k in range(len(seq))]
        try:
            posts, per, _t = asyncio.run(_c11_run([b[1] for b in seq], rs))
        except BaseException as ex:      # noqa: BLE001
            return dict(reproduced=True, input=[b[0] for b in seq], observed=f"{type(ex).__name__}: {ex}", required="later requests processed")
        for b, r, got in zip(seq, rs, per):
            j = _judge(b[0], r, b[2], got)
            if j:
                return dict(reproduced=True, input=dict(sequence=[b[0] for b in seq], request=r), observed=j[0], required=j[1])

    def with_sid(sid, status=200):
        def respond(r):
            h = {"content-type": "application/json"}
            if sid is not None:
                h["mcp-session-id"] = sid
            return httpx.Response(status, content=json.dumps({"jsonrpc": "2.0", "id": r["id"], "result": {}}).encode(), headers=h)
        return respond
    for sids in itertools.product(("A", "B", None), repeat=3):
        n += 1
        rs = [{"jsonrpc": "2.0", "id": k + 1, "method": "ping"} for k in range(4)]
        posts, per, _t = asyncio.run(_c11_run([with_sid(s) for s in sids] + [with_sid(None)], rs))
        current = None
        for k, p in enumerate(posts):
            got = p["headers"].get("mcp-session-id")
            if got != current:
                return dict(reproduced=True, input=dict(issued_session_ids=list(sids), request_number=k + 1), observed=f"request carried {got!r}",
                            required=f"the most recent issued session id {current!r}")
            if k < len(sids) and sids[k] is not None:
                current = sids[k]
    return dict(reproduced=False, cases=n, bound=f"{len(B)} server behaviours x (int id, str id, notification); failure-then-success "
                                                 f"sequences; all session-id issue patterns of length 3 (bounded, not a proof)")


# ------------------------------------------------------------------------------------------------ C12
class _SseResponse:
    """the part of httpx.Response an event-stream reader may use, fed with RAW byte chunks"""
    def __init__(self, raw_chunks):
        self.raw = list(raw_chunks)
        self.status_code = 200
        self.headers = {"content-type": "text/event-stream"}

    async def aiter_bytes(self, chunk_size=None):
        for c in self.raw:
            yield c

    aiter_raw = aiter_bytes

    async def aiter_text(self, chunk_size=None):
        import codecs
        dec = codecs.getincrementaldecoder("utf-8")(errors="replace")      # what httpx does
        for c in self.raw:
            t = dec.decode(c)
            if t:
                yield t

    async def aiter_lines(self):
        buf = ""
        async for t in self.aiter_text():
            buf += t
            while "\n" in buf:
                line, buf = buf.split("\n", 1)
                yield line.rstrip("\r")
        if buf:
            yield buf


def _harness_limit(ex):
    """an exception that only says the fake lacks something is not evidence about the code"""
    return isinstance(ex, (AttributeError, NotImplementedError)) and "_SseResponse" in str(ex)


def _sse_transport(timeout=0.3):
    tm = importlib.import_module("chuk_mcp.transports.sse.transport")
    pm = importlib.import_module("chuk_mcp.transports.sse.parameters")
    return tm.SSETransport(pm.SSEParameters(url="http://mcp.test", timeout=timeout)), tm


async def _c12_stream(text_chunks):
    import anyio
    t, _tm = _sse_transport()
    events = []

    async def on_endpoint(data):
        events.append(("endpoint", data))

    async def on_message(data):
        events.append(("message", data))
    t._handle_endpoint_event = on_endpoint
    t._handle_message_event = on_message
    t._sse_response = _SseResponse(text_chunks)
    await t._process_sse_stream()
    return events


async def _c12_request(mode, rid):
    import anyio
    import httpx
    t, tm = _sse_transport(timeout=0.25)
    answer = {"jsonrpc": "2.0", "id": rid, "result": {"ok": True}}
    send, recv = anyio.create_memory_object_stream(50)
    t._incoming_send = send
    t._message_url = "http://mcp.test/messages/?session_id=s"
    posts = []

    async def stream_answer():
        await t._handle_message_event(json.dumps(answer))

    async def handler(request):
        posts.append(json.loads(request.content))
        if mode == "body_200":
            return httpx.Response(200, json=answer)
        if mode == "event_then_ack":
            await stream_answer()
            return httpx.Response(202)
        if mode == "ack_then_event":
            asyncio.get_running_loop().call_later(0.05, lambda: asyncio.ensure_future(stream_answer()))
            return httpx.Response(202)
        if mode == "silence":
            return httpx.Response(202)
        if mode == "status_500_text":
            return httpx.Response(500, text="boom")
        if mode == "status_500_json":
            return httpx.Response(500, json={"detail": "boom"})
        if mode == "status_404_jsonrpc_error":
            return httpx.Response(404, json={"jsonrpc": "2.0", "id": rid, "error": {"code": -32001, "message": "gone"}})
        raise httpx.ConnectError("connection refused")
    t._send_client = httpx.AsyncClient(transport=httpx.MockTransport(handler))
    try:
        await asyncio.wait_for(t._send_message_via_http({"jsonrpc": "2.0", "id": rid, "method": "ping"}), timeout=5)
        await asyncio.sleep(0.1)
    finally:
        await t._send_client.aclose()
    got = []
    while True:
        try:
            got.append(recv.receive_nowait())
        except (anyio.WouldBlock, anyio.EndOfStream):
            break
    return posts, got, dict(t._pending_requests)


class _BodyError(Exception):
    pass


async def _c12_cleanup(request_mode, exit_path):
    """the real sse_client() context over httpx.MockTransport (streaming event body): leave it normally / by an exception
    in the body / by outer cancellation, with no request, an answered request, or a request acknowledged with 202 and still
    unanswered.  Leaving must finish promptly, propagate the right outcome and release tasks, pending table and clients."""
    import httpx
    sc = importlib.import_module("chuk_mcp.transports.sse.sse_client")
    tm = importlib.import_module("chuk_mcp.transports.sse.transport")
    pm = importlib.import_module("chuk_mcp.transports.sse.parameters")
    posted, push = asyncio.Event(), asyncio.Queue()
    created, clients, problems = [], [], []

    class Recording(tm.SSETransport):
        def __init__(self, parameters):
            super().__init__(parameters)
            created.append(self)

    async def sse_body():
        yield b"event: endpoint\ndata: /messages/?session_id=abc\n\n"
        while True:
            yield await push.get()

    async def handler(request):
        if request.method == "GET":
            return httpx.Response(200, headers={"content-type": "text/event-stream"}, content=sse_body())
        body = json.loads(request.content)
        if request_mode == "answered" and body.get("id") is not None:
            push.put_nowait(b"event: message\ndata: " + json.dumps({"jsonrpc": "2.0", "id": body["id"], "result": {}}).encode() + b"\n\n")
        posted.set()
        return httpx.Response(202)
    real = httpx.AsyncClient

    def factory(*a, **kw):
        kw["transport"] = httpx.MockTransport(handler)
        c = real(*a, **kw)
        clients.append(c)
        return c
    in_body, leave = asyncio.Event(), asyncio.Event()

    async def use_client():
        async with sc.sse_client(pm.SSEParameters(url="http://mcp.test", timeout=30.0)) as (read_stream, write_stream):
            if request_mode != "none":
                await write_stream.send({"jsonrpc": "2.0", "id": "req-1", "method": "tools/list"})
                await posted.wait()
                if request_mode == "answered":
                    msg = await asyncio.wait_for(read_stream.receive(), 2.0)
                    if getattr(msg, "id", None) != "req-1":
                        problems.append(f"answer not delivered: {msg!r}")
                await asyncio.sleep(0.05)
            in_body.set()
            if exit_path == "normal":
                return
            if exit_path == "exception":
                raise _BodyError("boom")
            await leave.wait()
    with mock.patch.object(httpx, "AsyncClient", factory), mock.patch.object(sc, "SSETransport", Recording):
        task = asyncio.create_task(use_client())
        try:
            await asyncio.wait_for(in_body.wait(), 5.0)
        except asyncio.TimeoutError:
            task.cancel()
            return "harness: the context was never entered"
        if exit_path == "cancel":
            task.cancel()
        _done, pending = await asyncio.wait({task}, timeout=3.0)
        if pending:
            problems.append("leaving the context did not finish within 3 s")
            for _ in range(20):
                task.cancel()
                d, _p = await asyncio.wait({task}, timeout=0.2)
                if d:
                    break
        if task.done() and not task.cancelled():
            exc = task.exception()
            if exit_path == "exception" and not isinstance(exc, _BodyError):
                problems.append(f"the body's exception was not propagated, got {exc!r}")
            if exit_path == "normal" and exc is not None:
                problems.append(f"normal exit raised {exc!r}")
        elif task.done() and exit_path != "cancel":
            problems.append("the context task ended cancelled")
        for t in created:
            for name in ("_sse_task", "_outgoing_task"):
                bg = getattr(t, name, None)
                if bg is not None and not bg.done():
                    problems.append(f"background task {name} still running after exit")
                    bg.cancel()
            if t._pending_requests:
                problems.append(f"pending requests left: {list(t._pending_requests)}")
        for c in clients:
            if not c.is_closed:
                problems.append("an httpx.AsyncClient was left open")
                await c.aclose()
        await asyncio.sleep(0.05)
    return "; ".join(problems) or None


def search_c12(tier="quick"):
    _quiet()
    n = 0
    # chunk independence of the event stream
    msg1 = '{"jsonrpc":"2.0","method":"notifications/message","params":{"data":"café € a\u2028b\u0085c\u2029d"}}'
    msg2 = '{"jsonrpc":"2.0","id":3,"result":{}}'
    text = f"event: endpoint\ndata: /messages/?session_id=abc\n\nevent: message\r\ndata: {msg1}\r\n\r\n: ping\nevent: message\ndata: {msg2}\n\n"
    want = [("endpoint", "/messages/?session_id=abc"), ("message", msg1), ("message", msg2)]
    raw = text.encode("utf-8")
    import codecs
    positions = list(range(1, len(raw)))
    combos = [()] + [(p,) for p in positions]
    combos += list(itertools.combinations(positions[::(1 if tier == "thorough" else 5)], 2))
    for cuts in combos:
        idx = [0, *cuts, len(raw)]
        chunks = [raw[a:b] for a, b in zip(idx, idx[1:])]
        n += 1
        try:
            got = asyncio.run(_c12_stream(chunks))
        except BaseException as ex:      # noqa: BLE001
            if _harness_limit(ex):
                return dict(reproduced=False, error=f"harness limit: {ex}")
            return dict(reproduced=True, input=dict(chunks=[repr(c) for c in chunks]), observed=f"{type(ex).__name__}: {ex}", required=str(want))
        if got != want:
            return dict(reproduced=True, input=dict(cut_positions=list(cuts), chunks=[repr(c) for c in chunks][:6]), observed=str(got)[:500],
                        required=str(want)[:500] + " (independent of the chunking)")
    # exactly one terminal message per request, per answer mode
    for mode, rid in itertools.product(("body_200", "event_then_ack", "ack_then_event", "silence", "status_500_text", "status_500_json",
                                        "status_404_jsonrpc_error", "exception"), (5, "r-1", 0)):
        n += 1
        try:
            posts, got, pending = asyncio.run(_c12_request(mode, rid))
        except BaseException as ex:      # noqa: BLE001
            return dict(reproduced=True, input=dict(mode=mode, request_id=rid), observed=f"{type(ex).__name__}: {ex}",
                        required="no exception escapes; exactly one terminal message")
        mine = [m for m in got if getattr(m, "id", None) == rid and type(getattr(m, "id", None)) is type(rid)
                and getattr(m, "method", None) is None]
        if len(posts) != 1 or len(mine) != 1 or len(got) != 1 or pending:
            return dict(reproduced=True, input=dict(mode=mode, request_id=rid),
                        observed=f"{len(posts)} POST(s); delivered {[_norm(m) for m in got]}; still pending {list(pending)}"[:600],
                        required="one POST, exactly one terminal message bearing the request id (value and type), request not left pending")
    for request_mode, exit_path in itertools.product(("none", "answered", "inflight"), ("normal", "exception", "cancel")):
        n += 1
        try:
            problem = asyncio.run(_c12_cleanup(request_mode, exit_path))
        except BaseException as ex:      # noqa: BLE001
            problem = f"{type(ex).__name__}: {ex}"
        if problem and problem.startswith("harness:"):
            continue
        if problem:
            return dict(reproduced=True, input=dict(request=request_mode, exit=exit_path), observed=problem,
                        required="leaving the context finishes promptly, propagates the body's outcome and releases every task, "
                                 "the pending table and every HTTP client")
    return dict(reproduced=False, cases=n, bound="one event stream x every 0/1-cut and sampled 2-cut chunking of its bytes; 8 answer modes x "
                                                 "(int id, str id, id 0); 3 request states x 3 exit paths of the client context (bounded, not a proof)")


REGISTRY = {"C11.": search_c11, "C12.": search_c12}
