"""cleanup_expired: set-builder summary of the filter comprehension + invariant of the deletion loop.

    expired = [sid for sid, session in self.sessions.items() if now - session.last_activity > max_age]
    for sid in expired: del self.sessions[sid]

Summary of the comprehension over a symbolic dict D (order unspecified, elements distinct):
    R : Seq[Val], sel : String -> Bool, idx : String -> Int      (fresh per evaluation)
    (A1)  forall i in [0, len R):  R[i] is a str, D.keys[s(R[i])], sel(s(R[i])), idx(s(R[i])) == i
    (A2)  forall x: D.keys[x] and sel(x)  ==>  0 <= idx(x) < len R  and  R[idx(x)] == str(x)
    (DEF) sel(p) <=> truthy(filter evaluated at key p, value D.vals[p])   -- instantiated at the points
          registered by the contract (the touched/arbitrary keys of its postcondition)
The filter expression itself is the real AST of the comprehension, evaluated by the interpreter.
"""
from __future__ import annotations

import ast

import z3

from pyvc import vals as V
from pyvc.vals import Val
from pyvc import prelude as P
from pyvc.core import FnDesc
from pyvc.loader import Unsupported
from pyvc.verify import Contract

MEM = "src/chuk_mcp/server/session/memory.py"
KEY = f"{MEM}::InMemorySessionManager.cleanup_expired"


def comprehension_hook(I, e, kind):
    if kind != "list" or len(e.generators) != 1:
        return None
    g = e.generators[0]
    if not (isinstance(g.iter, ast.Call) and isinstance(g.iter.func, ast.Attribute) and g.iter.func.attr == "items"
            and isinstance(g.target, ast.Tuple) and len(g.target.elts) == 2
            and isinstance(g.target.elts[0], ast.Name) and isinstance(e.elt, ast.Name)
            and e.elt.id == g.target.elts[0].id):
        return None
    src = I.eval(g.iter)
    d = I.ctx.fn_desc(src)
    if d is None or d.kind != "dictview" or d.name != "items":
        return None
    D = z3.simplify(d.payload)
    if P.concrete_keys(D) is not None:
        return None                               # literal dict: the generic unrolling handles it
    I.counter += 1
    n = I.counter
    R = z3.Const(f"compR~{n}", V.SeqVal)
    sel = z3.Function(f"sel~{n}", z3.StringSort(), z3.BoolSort())
    idx = z3.Function(f"idx~{n}", z3.StringSort(), z3.IntSort())
    i = z3.Int(f"ci~{n}")
    x = z3.String(f"cx~{n}")
    keys = Val.dkeys(D)
    ln = z3.Length(R)
    I.assume(z3.ForAll([i], z3.Implies(z3.And(i >= 0, i < ln),
                                       z3.And(V.is_str(R[i]), z3.Select(keys, Val.s(R[i])), sel(Val.s(R[i])),
                                              idx(Val.s(R[i])) == i))))
    I.assume(z3.ForAll([x], z3.Implies(z3.And(z3.Select(keys, x), sel(x)),
                                       z3.And(idx(x) >= 0, idx(x) < ln, R[idx(x)] == V.VStr(x)))))
    I.assume(z3.And(ln >= 0, ln <= Val.dsize(D)))
    summary = dict(R=R, sel=sel, idx=idx, D=D, node=e)
    if not hasattr(I, "comp_summaries"):
        I.comp_summaries = []
    I.comp_summaries.append(summary)
    # definition of sel at the registered instantiation points (evaluated on the real filter AST, now)
    for p in getattr(I, "inst_points", []):
        define_sel_at(I, summary, g, p)
    return V.VList(R)


def define_sel_at(I, summary, g, p):
    D = summary["D"]
    present = z3.Select(Val.dkeys(D), p)
    if not I.choose(present, "inst_point_present"):
        return                                    # sel(p) is only ever used under D.keys[p]
    # evaluate the filter under "p is present"; if it is not, sel(p) is irrelevant (guarded by keys[p])
    fr = I.push_frame(I.frame.func, I.frame.module, I.frame, tag=f"<comp-def@{summary['node'].lineno}>")
    try:
        I.frame.vars[g.target.elts[0].id] = V.VStr(p)
        I.frame.vars[g.target.elts[1].id] = z3.Select(Val.dvals(D), p)
        cond = z3.BoolVal(True)
        # the evaluation may only fork on facts about p that the representation invariant fixes
        saved = len(I.st.pc)
        for c in g.ifs:
            v = I.eval(c)
            cond = z3.And(cond, V.truthy(v))
        I.assume(z3.Implies(present, summary["sel"](p) == z3.simplify(cond)))
    finally:
        I.pop_frame()


def install(ctx):
    ctx.comprehension_hook = comprehension_hook


def summary_of(I):
    s = getattr(I, "comp_summaries", None)
    return s[-1] if s else None


def loop_inv(I, phase):
    """for sid in expired: del self.sessions[sid]   --  invariant over the arbitrary-key view:
       cur.keys[x] <=> D.keys[x] and not (sel(x) and idx(x) < i);  surviving records are D's;  size = |D| - i"""
    c19 = I.c19
    sm = summary_of(I)
    if sm is None:
        raise Unsupported("C19 proof script: the deletion loop is not preceded by the filter comprehension the invariant "
                          "summarises (cleanup_expired has another shape)")
    D, sel, idx, R = sm["D"], sm["sel"], sm["idx"], sm["R"]
    cur, _ = I.get_field(c19.mgr, "sessions")
    i = Val.i(I.frame.vars["__i0"])
    x = z3.String("lx")
    removed = z3.And(sel(x), idx(x) < i)
    keys_ok = z3.ForAll([x], z3.Select(Val.dkeys(cur), x) == z3.And(z3.Select(Val.dkeys(D), x), z3.Not(removed)))
    vals_ok = z3.ForAll([x], z3.Implies(z3.Select(Val.dkeys(cur), x),
                                        z3.Select(Val.dvals(cur), x) == z3.Select(Val.dvals(D), x)))
    name = "C19.InMemorySessionManager.cleanup_expired.loop"
    return [(f"{name}.store_is_entry_store_minus_deleted_prefix", z3.And(V.is_dict(cur), keys_ok)),
            (f"{name}.surviving_records_are_the_entry_records", vals_ok),
            (f"{name}.size_is_entry_size_minus_deleted", Val.dsize(cur) == Val.dsize(D) - i),
            (f"{name}.identity_kept", Val.did(cur) == Val.did(D))]


class CleanupExpired(Contract):
    key = KEY
    prop = "C19"

    def __init__(self, default_age=False):
        self.default_age = default_age

    def setup(self, I):
        from checks.C19 import MapView, FIELDS
        mv = MapView()
        self.mv = mv
        mgr = mv.manager(I)
        self.q = I.fresh("anykey", z3.StringSort())
        I.inst_points = [self.q]
        # representation invariant: ground instance at the arbitrary key q (the loop itself never reads records)
        I.assume(mv.wf_at(I, mv.D, self.q))
        mv.snapshot(I)
        self.max_age = I.fresh("max_age")
        I.assume(z3.Or(V.is_int(self.max_age), V.is_real(self.max_age)))
        if self.default_age:
            return [mgr], {}
        return [mgr, self.max_age], {}

    def post(self, I, result):
        mv, q = self.mv, self.q
        D, D1 = mv.D, mv.cur(I)
        sm = summary_of(I)
        age = z3.RealVal(3600) if self.default_age else V.num_val(self.max_age)
        rec = z3.Select(Val.dvals(D), q)
        la = z3.Select(mv.entry_heap["last_activity"], Val.oid(rec))
        # the clock value read by the function lies between entry and exit; the oracle is stated for the
        # 'now' the function observed, which the summary exposes through sel(q)
        expired_q = sm["sel"](q) if sm is not None else z3.BoolVal(False)
        now_seen = getattr(I, "c19_now_seen", None)
        watch = {"max_age": self.max_age}
        I.oblige(self.name("removes_exactly_the_expired"),
                 z3.Select(Val.dkeys(D1), q) == z3.And(z3.Select(Val.dkeys(D), q), z3.Not(expired_q)), watch=watch)
        I.oblige(self.name("survivors_keep_their_records"),
                 z3.Implies(z3.Select(Val.dkeys(D1), q),
                            z3.And(z3.Select(Val.dvals(D1), q) == z3.Select(Val.dvals(D), q),
                                   mv.record_unchanged(I, D, q))), watch=watch)
        I.oblige(self.name("returns_number_removed"),
                 z3.And(V.is_int(result), Val.i(result) == Val.dsize(D) - Val.dsize(D1), Val.i(result) >= 0),
                 watch=watch)
        # definition of 'expired' at q, straight from the property: idle for strictly longer than the limit,
        # measured against a clock reading taken during the call
        t = I.fresh_real("t_read")
        I.oblige(self.name("expired_means_idle_strictly_longer_than_limit"),
                 z3.Implies(z3.Select(Val.dkeys(D), q),
                            z3.Exists([t], z3.And(t >= mv.entry_now, t <= I.st.now,
                                                  expired_q == (t - Val.r(la) > age)))), watch=watch)


def contracts():
    return [CleanupExpired(False), CleanupExpired(True)]


def loop_invariants():
    return {(KEY, 0): loop_inv}
