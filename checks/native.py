"""Registry of bounded native searches, keyed by obligation-name prefix (the property whose contract the obligation
belongs to, also when it was composed into another property's check).  See native_stdio.py / native_http.py."""
from __future__ import annotations

_CACHE = {}


def _registry():
    from checks import native_stdio as S
    reg = {"C05.": S.search_c05, "C06.": S.search_c06, "C17.": S.search_c17, "C13.": S.search_c13_transport}
    from checks import native_http as H
    from checks import native_proto as PR
    reg.update(H.REGISTRY)
    reg.update(PR.REGISTRY)
    return reg


def search_for(obligation: str, tier: str = "quick"):
    """bounded native search on the real code for the property area of `obligation`; None if there is none"""
    for prefix, fn in _registry().items():
        if obligation.startswith(prefix):
            if prefix not in _CACHE:
                try:
                    r = fn(tier)
                    r["search"] = fn.__name__
                except Exception as ex:      # noqa: BLE001 - a crashing search decides nothing
                    import traceback
                    r = dict(reproduced=False, error=f"{type(ex).__name__}: {ex}", trace=traceback.format_exc()[-1200:])
                _CACHE[prefix] = r
            return dict(_CACHE[prefix])
    return None


STAND_INS = {
    "C05.": "stdio_client.py::StdioClient._stdout_reader",
    "C06.": "stdio_client.py::StdioClient._stdin_writer",
    "C17.": "fast_json.py::dumps|fast_json.py::loads",
    "C13.": "stdio_client.py::StdioClient._process_message_data|stdio_client.py::StdioClient._route_message|"
            "stdio_client.py::StdioClient.new_request_stream",
    "C11.": "http/transport.py::StreamableHTTPTransport._send_message_internal|http/transport.py::StreamableHTTPTransport._process_sse_text|"
            "http/transport.py::StreamableHTTPTransport._route_response",
    "C03.": "initialize/send_messages.py::send_initialize",
    "C20.": "config.py::load_config|server_manager.py::run_command|stdio_client.py::StdioClient.__aenter__|stdio_client.py::StdioClient.__init__",
    "C12.": "sse/transport.py::SSETransport._send_message_via_http|sse/transport.py::SSETransport._process_sse_stream|"
            "sse/transport.py::SSETransport._cleanup|sse/transport.py::SSETransport.__aenter__",
}


def stand_in(prefixes, tier, undecided):
    """stand-in results for the given property prefixes whose functions appear among the undecided entries"""
    out = []
    for p in prefixes:
        keys = STAND_INS.get(p, "")
        if not keys or not any(k in u for u in undecided for k in keys.split("|")):
            continue
        r = search_for(p, tier)
        if r is None:
            continue
        r["name"] = r.get("search", p)
        if not r.get("reproduced") and "error" not in r:
            r["covers"] = keys
        out.append(r)
    return out


def audit_both_backends(prefix, tier="quick"):
    """AuditResult of the bounded native search registered for `prefix`, run on the real code under the pydantic backend
    (in process) and under the pure-python fallback backend (subprocess with MCP_FORCE_FALLBACK=1).  A failing input is
    reported as a violation with a replayed input; a pass is bounded."""
    import json
    import os
    import subprocess
    import sys
    from pyvc.check import AuditResult
    results = {}
    r = search_for(prefix, tier) or {}
    results["pydantic backend"] = r
    if not r.get("reproduced"):
        src = os.path.join(os.environ.get("VERIF_REPO", "/repo"), "src")
        verif = os.path.dirname(os.path.dirname(os.path.abspath(__file__)))
        code = ("import sys, json; sys.path[:0] = [%r, %r]; from checks import native; "
                "print('RESULT ' + json.dumps(native.search_for(%r, %r), default=str))" % (src, verif, prefix, tier))
        try:
            out = subprocess.run([sys.executable, "-c", code], env=dict(os.environ, MCP_FORCE_FALLBACK="1"), capture_output=True,
                                 text=True, timeout=600).stdout
            line = [l for l in out.splitlines() if l.startswith("RESULT ")]
            if line:
                results["fallback backend (MCP_FORCE_FALLBACK=1)"] = json.loads(line[-1][7:]) or {}
        except Exception:      # noqa: BLE001
            pass
    n = sum(int(x.get("cases", 0) or 0) for x in results.values())
    name = f"bounded native search {prefix.rstrip('.')} under both backends"
    classified = []
    for backend, x in results.items():
        for cf in x.get("classified", []) or []:
            classified.append(dict(cf, input=dict(backend=backend, input=cf.get("input"))))
    for backend, x in results.items():
        if x.get("reproduced"):
            return AuditResult(name, False, n, f"[{backend}] {str(x.get('observed'))[:300]}",
                               violation=dict(input=dict(backend=backend, input=x.get("input")), observed=x.get("observed"),
                                              required=x.get("required")), classified=classified)
    return AuditResult(name, True, n, bound="; ".join(f"{b}: {x.get('bound', x.get('error', 'not run'))}" for b, x in results.items()),
                       classified=classified)
