"""C07 - an error response always surfaces as a classified exception carrying its code."""
from __future__ import annotations

import ast

import z3

from pyvc import vals as V
from pyvc.vals import Val
from pyvc import prelude as P
from pyvc import envs as E
from pyvc.check import Check, Canary, Lemma, AuditResult
from pyvc.verify import Contract
from pyvc.loader import Repo, Unsupported

ERRORS = "src/chuk_mcp/protocol/types/errors.py"
SEND = "src/chuk_mcp/protocol/messages/send_message.py"

# The documented sets (docs/errors + errors.py docstrings): permanent = never retry.
PERMANENT = {-32700: "PARSE_ERROR", -32600: "INVALID_REQUEST", -32601: "METHOD_NOT_FOUND", -32602: "INVALID_PARAMS",
             -32003: "MCP_CAPABILITY_NOT_SUPPORTED", -32005: "MCP_TOOL_NOT_FOUND", -32006: "MCP_PROMPT_NOT_FOUND",
             -32007: "MCP_AUTHORIZATION_FAILED", -32008: "MCP_PROTOCOL_VERSION_MISMATCH", -32000: "CONNECTION_CLOSED"}
RETRYABLE_NAMED = {-32603: "INTERNAL_ERROR", -32001: "REQUEST_TIMEOUT", -32002: "MCP_INITIALIZATION_FAILED",
                   -32004: "MCP_RESOURCE_NOT_FOUND"}
RETRYABLE_CLS = "chuk_mcp.protocol.types.errors.RetryableError"
NONRETRYABLE_CLS = "chuk_mcp.protocol.types.errors.NonRetryableError"


def permanent(code):
    """oracle: code (z3 Int) is one of the documented permanent codes"""
    return z3.Or([code == c for c in PERMANENT])


class IsRetryable(Contract):
    key = f"{ERRORS}::is_retryable_error"
    prop = "C07"

    def setup(self, I):
        self.code = I.fresh_int("code")
        return [V.VInt(self.code)], {}

    def post(self, I, result):
        I.oblige(self.name("retryable_iff_not_documented_permanent"),
                 result == V.VBool(z3.Not(permanent(self.code))), watch={"code": V.VInt(self.code)})


def response_object(I, error, result):
    """An incoming response object as the transports deliver it: attributes error / result / id."""
    cd = I.ctx.env_class(MESSAGE)
    return I.new_object(cd, {"error": error, "result": result, "id": I.fresh("rid"), "jsonrpc": V.VStr("2.0")})


class MessageEnv(E.EnvClass):
    """A JSON-RPC message object (pydantic model instance) seen from outside: data attributes live in the
    heap; model_dump() returns a dict determined by the object (uninterpreted)."""
    name = "Message"

    def __init__(self):
        self.methods = {"model_dump": self.model_dump}

    def model_dump(self, I, recv, args, kwargs):
        return dump_of(recv)


dump_of = z3.Function("dump_of", Val, Val)
MESSAGE = MessageEnv()


class ProcessResponseError(Contract):
    """error is not None => never returns; raises exactly RetryableError xor NonRetryableError, classified by
    the documented permanent set, carrying the server's code (default -32603 when absent) and message."""
    key = f"{SEND}::_process_response"
    prop = "C07"
    covers = (f"raise:{RETRYABLE_CLS}", f"raise:{NONRETRYABLE_CLS}")

    def setup(self, I):
        err = I.fresh("error")
        I.assume(V.is_dict(err))
        kc, km = z3.StringVal("code"), z3.StringVal("message")
        self.has_code = z3.Select(Val.dkeys(err), kc)
        self.has_msg = z3.Select(Val.dkeys(err), km)
        self.codev = z3.Select(Val.dvals(err), kc)
        self.msgv = z3.Select(Val.dvals(err), km)
        # the property quantifies over integer codes (bool is excluded: JSON true is not a code)
        I.assume(z3.Implies(self.has_code, V.is_int(self.codev)))
        self.err = err
        self.resp = response_object(I, err, I.fresh("result"))
        return [self.resp], {}

    def eff_code(self):
        return z3.If(self.has_code, Val.i(self.codev), z3.IntVal(-32603))

    def post(self, I, result):
        I.oblige(self.name("error_response_never_returns_normally"), z3.BoolVal(False),
                 watch={"error": self.err})

    def post_exc(self, I, e):
        watch = {"error": self.err}
        ok_cls = e.cls_name in (RETRYABLE_CLS, NONRETRYABLE_CLS)
        I.oblige(self.name(f"raises_only_the_two_documented_classes[{e.cls_name.split('.')[-1]}]"),
                 z3.BoolVal(ok_cls), watch=watch)
        if not ok_cls:
            return
        code = self.eff_code()
        is_nr = e.cls_name == NONRETRYABLE_CLS
        I.oblige(self.name("nonretryable_iff_documented_permanent_code"),
                 permanent(code) if is_nr else z3.Not(permanent(code)), watch=watch)
        cv, has = I.get_field(e.val, "code")
        I.oblige(self.name("exception_carries_server_code"), z3.And(has, cv == V.VInt(code)), watch=watch)
        msg = P.to_str(I, e.val)
        I.oblige(self.name("exception_text_contains_server_message"),
                 z3.Implies(z3.And(self.has_msg, V.is_str(self.msgv)), z3.Contains(msg, Val.s(self.msgv))),
                 watch=watch)


class ProcessResponseOk(Contract):
    """error is None => returns the result (or the dump when result is None); raises nothing."""
    key = f"{SEND}::_process_response"
    prop = "C07"

    def setup(self, I):
        self.result = I.fresh("result")
        self.resp = response_object(I, V.NONE, self.result)
        return [self.resp], {}

    def post(self, I, result):
        I.oblige(self.name("success_returns_result_or_dump"),
                 result == z3.If(V.is_none(self.result), dump_of(self.resp), self.result))


def module_int_constants(repo: Repo):
    mi = repo.load_path(ERRORS)
    consts = {}
    for name, node in mi.constants.items():
        try:
            v = ast.literal_eval(node)
        except Exception:
            continue
        if isinstance(v, int) and not isinstance(v, bool):
            consts[name] = v
    return mi, consts


def module_set(mi, consts, name):
    """value of a module-level set constant: a set literal of named constants / literals, or a |, &, - combination of such
    sets (also through other module-level names), evaluated from the AST"""
    def ev(node, depth=0):
        if depth > 6:
            raise Unsupported(f"{name}: set expression nested too deeply")
        if isinstance(node, ast.Set):
            out = set()
            for e in node.elts:
                if isinstance(e, ast.Name) and e.id in consts:
                    out.add(consts[e.id])
                else:
                    try:
                        out.add(ast.literal_eval(e))
                    except Exception:
                        raise Unsupported(f"element of {name} is not a named constant or literal")
            return out
        if isinstance(node, ast.Name) and node.id in mi.constants:
            return ev(mi.constants[node.id], depth + 1)
        if isinstance(node, ast.BinOp) and isinstance(node.op, (ast.BitOr, ast.BitAnd, ast.Sub)):
            a, b = ev(node.left, depth + 1), ev(node.right, depth + 1)
            return a | b if isinstance(node.op, ast.BitOr) else (a & b if isinstance(node.op, ast.BitAnd) else a - b)
        if isinstance(node, ast.Call) and isinstance(node.func, ast.Name) and node.func.id in ("set", "frozenset") and len(node.args) <= 1:
            return ev(node.args[0], depth + 1) if node.args else set()
        if isinstance(node, ast.Call) and isinstance(node.func, ast.Attribute) and node.func.attr == "union":
            out = ev(node.func.value, depth + 1)
            for x in node.args:
                out = out | ev(x, depth + 1)
            return out
        raise Unsupported(f"{name} is not a set literal or a combination of set literals")
    node = mi.constants.get(name)
    if node is None:
        raise Unsupported(f"{name} is no longer a module-level constant")
    return ev(node)


class C07(Check):
    prop = "C07"
    level = "proof"
    title = ("classification proved for every integer code; error branch of response processing proved for every "
             "error object with an integer (or absent) code; code sets decided from the module AST")
    design_ref = "section 7, C07"
    trusted = ["a response object is seen through its data attributes (error/result/id) and an uninterpreted "
               "model_dump(); Exception.__init__ stores its first argument as the text of the exception"]

    def install(self, ctx):
        from checks import sendmsg
        sendmsg.install(ctx)
        ctx.env_class(MESSAGE)

        def dyn(I, fv, args, kwargs, node, awaited):
            """methods of caller-supplied argument objects: any value or any Exception"""
            from pyvc.core import PyRaise
            if I.choose_n(2, "argument_method_outcome") == 1:
                raise PyRaise(I.make_exc("AnyException", V.VStr("")), "AnyException")
            return I.fresh("dyn_result")
        ctx.dynamic_call_hook = dyn

    def contracts(self):
        from checks import helpers_c07
        return [IsRetryable(), ProcessResponseError(), ProcessResponseOk()] + helpers_c07.contracts()

    def modular(self):
        from checks import helpers_c07
        return helpers_c07.modular()

    def static_checks(self, repo):
        mi, consts = module_int_constants(repo)
        nr = module_set(mi, consts, "NON_RETRYABLE_ERRORS")
        rt = module_set(mi, consts, "RETRYABLE_ERRORS")
        out = [("C07.errors.permanent_and_retryable_sets_disjoint", not (nr & rt), f"common: {sorted(nr & rt)}"),
               ("C07.errors.permanent_set_is_the_documented_one", nr == set(PERMANENT),
                f"module has {sorted(nr)}, documented {sorted(PERMANENT)}"),
               ("C07.errors.retryable_set_is_the_documented_one", rt == set(RETRYABLE_NAMED),
                f"module has {sorted(rt)}, documented {sorted(RETRYABLE_NAMED)}")]
        named = {n: v for n, v in consts.items() if n.isupper() and not n.startswith("SERVER_ERROR")}
        bad = [n for n, v in named.items() if (v in nr) == (v in rt)]
        out.append(("C07.errors.every_named_code_in_exactly_one_set", not bad, f"not in exactly one set: {bad}"))
        return out

    def canaries(self):
        return [
            Canary("INTERNAL_ERROR also permanent", ERRORS, "    CONNECTION_CLOSED,  # Connection closed is permanent\n",
                   "    CONNECTION_CLOSED,  # Connection closed is permanent\n    INTERNAL_ERROR,\n", "C07."),
            Canary("classify by membership in RETRYABLE_ERRORS", ERRORS, "return code not in NON_RETRYABLE_ERRORS",
                   "return code in RETRYABLE_ERRORS", "retryable_iff"),
            Canary("error dict returned instead of raised", SEND,
                   "        raise NonRetryableError(msg, code)\n", "        return error\n", "never_returns"),
            Canary("classes swapped", SEND, "        if is_retryable_error(code):", "        if not is_retryable_error(code):",
                   "nonretryable_iff"),
            Canary("falsy code replaced by default", SEND, 'code = error.get("code", -32603)',
                   'code = error.get("code") or -32603', "carries_server_code"),
        ]

    def replay(self, name, model, rec):
        from chuk_mcp.protocol.types import errors as er
        import importlib
        sm = importlib.import_module("chuk_mcp.protocol.messages.send_message")
        if "is_retryable_error" in name:
            code = model.get("code")
            if not isinstance(code, int):
                return None
            got = er.is_retryable_error(code)
            want = code not in PERMANENT
            return dict(reproduced=got != want, input=code, observed=got, required=want)
        if "_process_response" in name:
            err = model.get("error")
            if not isinstance(err, dict):
                return None

            class R:
                error = err
                result = None
                id = 1

                def model_dump(self):
                    return {"id": 1}
            code = err.get("code", -32603)
            want_cls = er.NonRetryableError if code in PERMANENT else er.RetryableError
            try:
                out = sm._process_response(R())
                return dict(reproduced=True, input=err, observed=f"returned {out!r}", required=want_cls.__name__)
            except Exception as ex:
                ok = type(ex) is want_cls and getattr(ex, "code", None) == code and \
                    (not isinstance(err.get("message"), str) or err["message"] in str(ex))
                return dict(reproduced=not ok, input=err,
                            observed=f"{type(ex).__name__}(code={getattr(ex, 'code', None)!r}, {str(ex)!r})",
                            required=f"{want_cls.__name__}(code={code})")
        return None

    def bounded_stand_in(self, tier, undecided):
        """errors.py / the error branch of _process_response outside the interpreted subset: the real functions on every
        integer code in a stated range (all named codes lie inside it) x {message present, absent}"""
        keys = ("errors.py::is_retryable_error", "send_message.py::_process_response")
        if not any(k in u for u in undecided for k in keys):
            return []
        lo, hi = (-40000, 40000) if tier == "thorough" else (-33100, -31900)
        codes = list(range(lo, hi + 1)) + [-1, 0, 1, 2 ** 31, -2 ** 63]
        n = 0
        for code in codes:
            shapes = [("is_retryable_error", {"code": code}),
                      ("_process_response", {"error": {"code": code, "message": "m"}}),
                      ("_process_response", {"error": {"code": code}})]
            if code % 97 == 0 or code in (-32603, -32602, -32000, 0):
                # the optional `data` member of an error object may be any JSON value
                shapes += [("_process_response", {"error": {"code": code, "message": "m", "data": dv}})
                           for dv in ("text", "", ["a", 1], [], 7, 0, True, None, {"k": "v"}, {}, 1.5)]
            for name, model in shapes:
                n += 1
                r = self.replay(name, model, None)
                if r and r.get("reproduced"):
                    r["name"] = name
                    r["bound"] = f"integer codes {lo}..{hi} and five outliers"
                    return [r]
        return [dict(name="error_classification", reproduced=False, cases=n, covers="|".join(keys),
                     bound=f"every integer code in {lo}..{hi} and five outliers x message present/absent (bounded, not a proof)")]


CHECK = C07()
