"""C01 - a request completes only with the response that bears its own id."""
from __future__ import annotations

import z3

from pyvc import vals as V
from pyvc.vals import Val
from pyvc import prelude as P
from pyvc import envs as E
from pyvc.check import Check, Canary, Lemma
from checks import sendmsg as SM
from checks.sendmsg import SendMessageSetup, SEND, SEND_KEY, AWAIT_KEY

STREAM_ERRORS = ("EndOfStream", "ClosedResourceError", "BrokenResourceError")


class SendMessageC01(SendMessageSetup):
    prop = "C01"
    covers = ("return", "raise:TimeoutError", f"raise:{SM.RETRYABLE_CLS}", f"raise:{SM.NONRETRYABLE_CLS}")

    def name(self, clause):
        return f"C01.send_message.{clause}[{self.cfg()}]"

    def request_ok(self, I, req):
        """the written item is a request with the id sent, the given method and the given params"""
        def fld(n):
            v, has = I.get_field(req, n)
            return v, has
        (rid, h1), (meth, h2), (par, h3), (jr, h4) = fld("id"), fld("method"), fld("params"), fld("jsonrpc")
        want_id = self.req_id(I)
        conds = [V.is_obj(req), h1, h2, h3, rid == want_id, meth == self.method, jr == V.VStr("2.0")]
        if not self.with_callback:
            conds.append(par == self.params)
        else:
            # params' = params plus _meta.progressToken (other members unchanged)
            tok = self.progress_token(I)
            meta = z3.Select(Val.dvals(par), z3.StringVal("_meta"))
            q = z3.String("pk!q")
            base_keys = z3.If(V.is_dict(self.params), Val.dkeys(self.params), V.EMPTY_KEYS)
            base_vals = z3.If(V.is_dict(self.params), Val.dvals(self.params), V.EMPTY_VALS)
            conds += [V.is_dict(par), z3.Select(Val.dkeys(par), z3.StringVal("_meta")), V.is_dict(meta),
                      z3.Select(Val.dkeys(meta), z3.StringVal("progressToken")),
                      z3.Select(Val.dvals(meta), z3.StringVal("progressToken")) == tok,
                      z3.ForAll([q], z3.Implies(q != z3.StringVal("_meta"),
                                                z3.And(z3.Select(Val.dkeys(par), q) == z3.Select(base_keys, q),
                                                       z3.Implies(z3.Select(base_keys, q),
                                                                  z3.Select(Val.dvals(par), q) == z3.Select(base_vals, q)))))]
        return z3.And(conds)

    def post(self, I, result):
        v, pos, inc = self.view, self.pos(I), self.incoming
        rid = self.req_id(I)
        last = inc[pos - 1]
        k = z3.Int("k!post")
        watch = {"req_id": rid, "last": last, "pos": V.VInt(pos)}
        I.oblige(self.name("returns_only_on_a_matching_response"),
                 z3.And(pos >= 1, v.is_match(last, rid)), watch=self.model_watch(I))
        I.oblige(self.name("it_is_the_first_matching_response"),
                 z3.ForAll([k], z3.Implies(z3.And(k >= 0, k < pos - 1), z3.Not(v.is_match(inc[k], rid)))))
        I.oblige(self.name("result_is_that_response_payload"), result == v.payload(last), watch=self.model_watch(I))
        w = self.written(I)
        I.oblige(self.name("exactly_one_request_written"),
                 z3.And(z3.Length(w) == 1, self.request_ok(I, w[0])))

    def model_watch(self, I):
        v, pos, inc = self.view, self.pos(I), self.incoming
        last = inc[pos - 1]
        return {"req_id": self.req_id(I), "pos": V.VInt(pos), "last_is_list": V.VBool(V.is_list(last)),
                "last_id": v.attr(last, "id"), "last_method": v.attr(last, "method"),
                "last_result": v.attr(last, "result"), "last_error": v.attr(last, "error")}

    def post_exc(self, I, e):
        v, pos, inc = self.view, self.pos(I), self.incoming
        rid = self.req_id(I)
        cls = e.cls_name
        allowed = {"TimeoutError", "CancelledError", SM.RETRYABLE_CLS, SM.NONRETRYABLE_CLS} | set(STREAM_ERRORS)
        if self.with_token:
            allowed.add(SM.LIB_CANCELLED)
        I.oblige(self.name(f"fails_only_in_documented_ways[{cls.split('.')[-1]}]"), z3.BoolVal(cls in allowed),
                 watch=self.model_watch(I) if rid is not None else {})
        if cls in (SM.RETRYABLE_CLS, SM.NONRETRYABLE_CLS):
            last = inc[pos - 1]
            I.oblige(self.name("error_raised_only_for_a_matching_error_response"),
                     z3.And(pos >= 1, v.is_match(last, rid), z3.Not(V.is_none(v.attr(last, "error")))),
                     watch=self.model_watch(I))
        # whatever happens, no second request with this id is ever written
        w = self.written(I)
        n = z3.simplify(z3.Length(w))
        if rid is not None and z3.is_int_value(n):
            reqs = 0
            for j in range(n.as_long()):
                m, hm = I.get_field(z3.simplify(w[j]), "method")
                i_, hi = I.get_field(z3.simplify(w[j]), "id")
                reqs = reqs + z3.If(z3.And(hi, i_ == rid, z3.Not(V.is_none(i_))), 1, 0)
            I.oblige(self.name("at_most_one_request_with_this_id_written"), z3.IntVal(0) + reqs <= 1)


class SendMessageC01Reg(SendMessageC01):
    pass


class C01(Check):
    prop = "C01"
    level = "proof"
    title = ("send_message with _await_response/_process_response inlined: loop invariant over the ghost history "
             "of incoming messages; return only on the first matching response, one request written")
    design_ref = "section 7, C01"
    trusted = [
        "anyio memory streams: receive() checkpoints, then delivers the next item of the ghost history, blocks "
        "until a cancel scope fires, or raises EndOfStream/ClosedResourceError; send() appends or raises "
        "Broken/ClosedResourceError",
        "anyio.fail_after: converts its own scope's cancellation into TimeoutError; an enclosing scope's "
        "cancellation passes through as BaseException",
        "incoming items are batch lists or message objects created before the call (type invariant instantiated "
        "per delivered item)",
        "pydantic model construction per pyvc.pyd (lax-mode table), user callbacks may raise any Exception",
    ]

    def install(self, ctx):
        SM.install(ctx)
        ctx.extern_handlers["os.environ.get"] = lambda I, a, k, n: (a[1] if len(a) > 1 else V.NONE)

    def contracts(self):
        cs = [SendMessageC01Reg(False, False, id_mode="given"),
              SendMessageC01Reg(False, False, id_mode="uuid"),
              SendMessageC01Reg(True, True, id_mode="given")]
        # the id a waiter compares is the WIRE id: decoding an incoming response / error keeps id value and JSON type
        from checks import C02
        cs += [C02.ParseEmitted("response"), C02.ParseEmitted("error")]
        if self.tier == "thorough":       # every combination of token / callback / id source
            cs += [SendMessageC01Reg(True, False, id_mode="given"), SendMessageC01Reg(False, True, id_mode="given"),
                   SendMessageC01Reg(True, True, id_mode="uuid"), SendMessageC01Reg(True, False, id_mode="uuid"),
                   SendMessageC01Reg(False, True, id_mode="uuid")]
        return cs

    def loop_invariants(self):
        return {(AWAIT_KEY, 0): SM.await_loop_invariant("C01")}

    def canaries(self):
        return [
            Canary("id filter removed", SEND, "        if msg_id != req_id:\n", "        if False:\n", "C01."),
            Canary("method filter removed (same-id server request accepted)", SEND,
                   "        if msg_method is not None:\n            continue\n", "", "matching_response"),
            Canary("request sent again inside the loop", SEND,
                   "    logging.debug(\"[send_message] sending %s\", method)\n    await write_stream.send(message)\n",
                   "    await write_stream.send(message)\n    await write_stream.send(message)\n", "C01."),
            Canary("error returned instead of raised", SEND, "        raise NonRetryableError(msg, code)\n",
                   "        return error\n", "C01."),
        ]

    def replay(self, name, model, rec):
        from checks import replay_sendmsg
        return replay_sendmsg.replay_c01(name, model, rec)


CHECK = C01()
