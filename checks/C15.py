"""C15 - client-observable behaviour does not depend on the transport carrying it.

Decided as a corollary (DESIGN.md section 7, C15), not by a differential run:
  L1  every carrier's inbound path delivers the server's messages, in order, as message objects carrying the wire
      members unchanged (stdio: reader framing + routing; Streamable HTTP: JSON and SSE bodies; legacy SSE: see C12);
  L2  the two ways a wire object becomes a message object (parse_message on stdio, JSONRPCMessage.model_validate on
      the HTTP carriers) agree on (id incl. type, method, params, result, error) - lemma over two proved contracts;
  L3  every carrier serialises an outgoing typed message with exactly exclude_none=True (no alias / unset options).
The obligations of L1 are re-verified here from the contracts of C05 / C13 / C02 / C11 so that this check stands alone.
"""
from __future__ import annotations

import ast

import z3

from pyvc import vals as V
from pyvc import envs as E
from pyvc import pyd
from pyvc.check import Check, Canary, Lemma
from pyvc.loader import Repo, Unsupported
from checks import stdio as ST
from checks import C02, C05, C11, C12, C13

STDIO = ST.STDIO
HTTP = C11.HTTP
SSE = "src/chuk_mcp/transports/sse/transport.py"
FIELDS = ("id", "method", "params", "result", "error")


def lemma_mk_agreement():
    """parse_message(d) and JSONRPCMessage.model_validate(d) yield objects with the same normalised members, for every
    wire object d both accept: each is proved to carry d's members unchanged (C02.parse_message.round_trip_...,
    C11._route_response.a_delivered_message_carries_the_given_members_unchanged)."""
    asm, goals = [], []
    for f in FIELDS:
        wire = z3.Const(f"wire_{f}", V.Val)
        parsed = z3.Const(f"parsed_{f}", V.Val)
        validated = z3.Const(f"validated_{f}", V.Val)
        asm += [parsed == wire, validated == wire]
        goals.append(parsed == validated)
    return asm, z3.And(goals)


def dump_option_sites(repo: Repo):
    """(file, function, call source, keywords) of every model_dump / model_dump_json call in the three carriers'
    outbound paths"""
    out = []
    targets = {STDIO: ("_stdin_writer",), HTTP: ("_send_message_internal",), SSE: ("_send_message_via_http",)}
    for rel, funcs in targets.items():
        mi = repo.load_path(rel)
        for cls in mi.classes.values():
            for fn in funcs:
                m = cls.methods.get(fn)
                if m is None:
                    continue
                # the function and every same-class method / same-module function it (transitively) calls, so that an
                # extracted helper is still the carrier's outbound path
                todo, seen = [m.node], set()
                while todo:
                    node = todo.pop()
                    if id(node) in seen:
                        continue
                    seen.add(id(node))
                    # locals bound to a dump method: x = getattr(m, "model_dump_json", None) / x = m.model_dump (also
                    # inside a conditional expression)
                    aliases = set()
                    for n in ast.walk(node):
                        if isinstance(n, (ast.Assign, ast.AnnAssign)) and n.value is not None:
                            hit = False
                            for v in ast.walk(n.value):
                                if isinstance(v, ast.Call) and isinstance(v.func, ast.Name) and v.func.id == "getattr" \
                                        and len(v.args) >= 2 and isinstance(v.args[1], ast.Constant) \
                                        and v.args[1].value in ("model_dump", "model_dump_json"):
                                    hit = True
                                if isinstance(v, ast.Attribute) and v.attr in ("model_dump", "model_dump_json") \
                                        and not isinstance(getattr(v, "ctx", None), ast.Store):
                                    hit = hit or not any(isinstance(c, ast.Call) and c.func is v for c in ast.walk(n.value))
                            if hit:
                                tg = n.targets if isinstance(n, ast.Assign) else [n.target]
                                aliases |= {t.id for t in tg if isinstance(t, ast.Name)}
                    for n in ast.walk(node):
                        if not isinstance(n, ast.Call):
                            continue
                        f = n.func
                        name = f.attr if isinstance(f, ast.Attribute) else (f.id if isinstance(f, ast.Name) else "")
                        if name in ("model_dump", "model_dump_json") or (isinstance(f, ast.Name) and name in aliases):
                            kws = {k.arg: (k.value.value if isinstance(k.value, ast.Constant) else "?") for k in n.keywords}
                            out.append((rel, fn, ast.unparse(n), kws))
                        callee = None
                        if isinstance(f, ast.Attribute) and isinstance(f.value, ast.Name) and f.value.id in ("self", "cls", cls.name):
                            callee = cls.methods.get(f.attr)
                        elif isinstance(f, ast.Name):
                            callee = mi.functions.get(f.id)
                        if callee is not None:
                            todo.append(callee.node)
    return out


class C15(Check):
    prop = "C15"
    level = "other"
    title = ("corollary: each carrier's inbound path is proved (here, from the contracts of C05/C13/C02/C11) to deliver "
             "message objects carrying the wire members unchanged and in order; the two construction paths agree "
             "(lemma); all three outbound serialisation sites use exactly exclude_none=True (AST-level); carrier "
             "findings of C11 are inherited by reference; the legacy SSE carrier's inbound path is covered by C12's "
             "framing contract only")
    design_ref = "section 7, C15"
    trusted = ["derived lemma over per-carrier contracts, not a differential run of the four carriers",
               "inherits the environment contracts and known findings of C05, C11, C12, C13 (lost/dropped encodings on "
               "the HTTP carriers are listed there)",
               "legacy SSE carrier: its framing (_process_sse_stream) and hand-over (_send_message_via_http) contracts of C12 are "
               "re-verified here; _handle_message_event is used through its guarantee G (see C12)"]

    def install(self, ctx):
        ST.install(ctx)
        C05.CHECK.install(ctx)
        C12.CHECK.install(ctx)
        C11.CHECK.install(ctx)
        ctx.env_class(C13.T_HOLDER)
        ctx.extern_handlers["os.environ.get"] = lambda I, a, k, n: (a[1] if len(a) > 1 else V.NONE)

    def modular(self):
        m = {}
        m.update(C13.CHECK.modular())
        m.update(C05.CHECK.modular())
        m.update(C12.CHECK.modular())
        m.update(C11.CHECK.modular())
        return m

    def contracts(self):
        return ([C05.StdoutReader(), C13.RouteMessage()] + [C02.ParseEmitted(k) for k in ("request", "notification", "response", "error")]
                + [C11.RouteResponse(), C11.SseText("canonical_lf"), C11.SseText("two_events"), C11.SseText("canonical_crlf")]
                # legacy SSE carrier: the event-stream framing and the POST-reply / event-stream hand-over
                + [C12.ProcessStream(), C12.SendRequest("event_then_ack"), C12.SendRequest("ack_then_event"), C12.SendRequest("body_200"), C12.HandleMessageEvent()])

    def loop_invariants(self):
        inv = {}
        inv.update(C05.CHECK.loop_invariants())
        inv.update(C13.CHECK.loop_invariants())
        inv.update(C12.CHECK.loop_invariants())
        inv.update(C11.CHECK.loop_invariants())
        return inv

    def lemmas(self):
        return [Lemma("C15.lemma.parse_message_and_model_validate_build_the_same_message", lemma_mk_agreement)]

    def static_checks(self, repo):
        sites = dump_option_sites(repo)
        if len(sites) < 3:
            raise Unsupported(f"outbound serialisation sites not found (found {len(sites)})")
        out = []
        for rel, fn, src, kws in sites:
            out.append((f"C15.outbound.typed_message_dumped_with_exclude_none_only[{rel.split('/')[-2]}:{fn}:{src[:40]}]",
                        kws == {"exclude_none": True}, f"options used: {kws}"))
        return out

    def canaries(self):
        return [
            Canary("HTTP carrier dumps with exclude_none=False", HTTP, "message_dict = message.model_dump(exclude_none=True)",
                   "message_dict = message.model_dump(exclude_none=False)", "C15.outbound"),
            Canary("SSE carrier dumps by alias only", SSE, "message_dict = message.model_dump(exclude_none=True)",
                   "message_dict = message.model_dump(exclude_none=True, by_alias=True)", "C15.outbound"),
            Canary("stdio routing skips the read stream when the side channel is full", STDIO,
                   "            try:\n                self._notify_send.send_nowait(msg)  # type: ignore[union-attr]\n            except (anyio.WouldBlock, anyio.BrokenResourceError):\n                pass\n",
                   "            try:\n                self._notify_send.send_nowait(msg)  # type: ignore[union-attr]\n            except (anyio.WouldBlock, anyio.BrokenResourceError):\n                return\n",
                   "offered_exactly_once"),
            Canary("HTTP SSE bodies split on every unicode line boundary", HTTP, '            lines = text.split("\\n")\n',
                   "            lines = text.splitlines()\n", "_process_sse_text"),
        ]

    def replay(self, name, model, rec):
        return None


    def bounded_stand_in(self, tier, undecided):
        from checks import native
        return native.stand_in(['C05.'], tier, undecided)

CHECK = C15()
