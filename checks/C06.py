"""C06 - stdio outbound framing: one message, one line, in order, content preserved."""
from __future__ import annotations

import z3

from pyvc import vals as V
from pyvc.vals import Val
from pyvc import prelude as P
from pyvc import envs as E
from pyvc.core import PyRaise
from pyvc.check import Check, Canary
from pyvc.verify import Contract
from checks import stdio as ST
from checks.stdio import STDIO, NL

model_json = z3.Function("model_json", Val, z3.StringSort())     # model_dump_json(exclude_none=True) of a model
model_dump = z3.Function("model_dump", Val, Val)
CR = z3.StringVal("\r")


class TrackingOutgoing(E.ReadStreamEnv):
    name = "OutgoingStream"


class TrackingStdin(ST.PipeIn):
    name = "TrackedStdin"

    def send(self, I, recv, args, kwargs):
        I.c06.on_write(I, args[0])
        return super().send(I, recv, args, kwargs)


class StdinWriter(Contract):
    key = f"{STDIO}::StdioClient._stdin_writer"
    prop = "C06"
    covers = ("return",)

    def setup(self, I):
        I.c06 = self
        proc, out, inn, chunks = ST.make_process(I)
        tin = TrackingStdin()
        self.stdin = E.new_env_object(I, tin, writes=V.VList([]), attempted=V.VList([]), closed=V.FALSE)
        I.set_attr(proc, "stdin", self.stdin, record=False)
        self.client = ST.make_client(I, process=proc)
        env = TrackingOutgoing()
        env.on_consume = self.on_consume
        self.outgoing = E.make_read_stream(I, "outgoing", env)
        I.set_attr(self.client, "_outgoing_recv", self.outgoing, record=False)
        self.seq = Val.items(E.gfield(I, self.outgoing, "incoming"))
        I.ghost["writes_this_iteration"] = 0
        I.ghost["current"] = None
        return [self.client], {}

    # ---- environment hooks
    def on_consume(self, I, recv, m):
        I.ghost["current"] = m
        I.ghost["writes_this_iteration"] = 0
        # shapes accepted on the write stream: str, plain dict, a typed message (object), anything else
        I.assume(z3.Implies(V.is_dict(m), Val.dsize(m) >= 0))
        I.assume(z3.Implies(V.is_obj(m), z3.And(Val.oid(m) > 0, Val.oid(m) < 1_000_000)))

    def spec_line(self, I, m, json_str):
        """the one line that must represent message m (from the property): the JSON text of the message; for a
        pre-serialised string the string itself (raw CR/LF can only be insignificant whitespace and are removed)"""
        no_breaks = z3.And(z3.Not(z3.Contains(Val.s(m), NL)), z3.Not(z3.Contains(Val.s(m), CR)))
        str_ok = z3.Implies(no_breaks, json_str == Val.s(m))
        dict_ok = json_str == ST.json_text(m)
        obj_ok = z3.Or(json_str == model_json(m), json_str == ST.json_text(model_dump(m)),
                       json_str == ST.json_text(m))
        return z3.If(V.is_str(m), str_ok, z3.If(V.is_dict(m), dict_ok, obj_ok))

    def on_write(self, I, data):
        m = I.ghost.get("current")
        I.ghost["writes_this_iteration"] = I.ghost.get("writes_this_iteration", 0) + 1
        nm = "C06._stdin_writer.write"
        # the written text is recovered from the bytes themselves (utf8_enc is the only producer of bytes here), never
        # from the name of a local: data must be utf8(text) for some str `text`
        d = z3.simplify(data)
        text = None
        if z3.is_app(d) and d.decl().name() == "bytes" and z3.is_app(d.arg(0)) and d.arg(0).decl().name() == "utf8_enc":
            text = d.arg(0).arg(0)
        if text is None or m is None:
            I.oblige(f"{nm}.is_the_frame_of_the_message_being_processed", z3.BoolVal(False), watch={"data": data})
            return
        line = z3.simplify(z3.SubString(text, 0, z3.Length(text) - 1))
        parts = P._concat_parts(text)
        if parts and len(parts) >= 2 and z3.eq(z3.simplify(parts[-1]), z3.simplify(NL)):
            line = z3.simplify(z3.Concat(*parts[:-1])) if len(parts) > 2 else parts[0]
        watch = {"message": m, "line": V.VStr(line)}
        I.oblige(f"{nm}.is_exactly_one_newline_terminated_utf8_line",
                 z3.And(z3.SuffixOf(NL, text), text == z3.Concat(line, NL)), watch=watch)
        I.oblige(f"{nm}.no_raw_line_break_inside_the_line", z3.Not(z3.Contains(line, NL)), watch=watch)
        I.oblige(f"{nm}.line_is_the_json_text_of_the_message", self.spec_line(I, m, line), watch=watch)
        I.oblige(f"{nm}.at_most_one_line_per_message", z3.BoolVal(I.ghost["writes_this_iteration"] <= 1))

    def post(self, I, result):
        closed = E.gfield(I, self.stdin, "closed")
        pos = Val.i(E.gfield(I, self.outgoing, "pos"))
        # the writer only returns when the outgoing stream ended, and then it has closed the child's stdin
        I.oblige(self.name("stdin_closed_when_the_write_stream_ends"),
                 z3.Or(V.truthy(closed), z3.BoolVal(bool(I.ghost.get("ended_by_error")))))

    def post_exc(self, I, e):
        I.oblige(self.name(f"writer_never_dies_from_one_bad_message[{e.cls_name}]"),
                 z3.BoolVal(e.cls_name == "CancelledError"))


def loop_inv(I, phase):
    c = I.c06
    w = Val.items(E.gfield(I, c.stdin, "writes"))
    pos = Val.i(E.gfield(I, c.outgoing, "pos"))
    closed = E.gfield(I, c.stdin, "closed")
    return [("C06._stdin_writer.loop.no_more_lines_than_messages", z3.Length(w) <= pos),
            ("C06._stdin_writer.loop.stdin_still_open", closed == V.FALSE)]


def dynamic_call(I, fv, args, kwargs, node, awaited):
    """the serialisation methods of a typed message object: model_dump_json -> the compact JSON text of the
    model (no raw line break: pydantic's serializer escapes control characters) or an exception;
    model_dump -> a dict or an exception"""
    m = I.ghost.get("current")
    I.assume(z3.Or(V.is_fn(fv), V.is_obj(fv)))
    # "absent optional members omitted" and nothing else: the typed message is dumped with exclude_none=True only
    # (C02 / C15: the same options at every carrier; exclude_unset/exclude_defaults would drop "jsonrpc")
    only_exclude_none = set(kwargs) == {"exclude_none"} and V.concrete_bool(V.truthy(kwargs["exclude_none"])) is True
    I.oblige("C06._stdin_writer.typed_message_serialised_with_exclude_none_only", z3.BoolVal(bool(only_exclude_none)))
    if I.choose_n(2, "serialiser_outcome") == 1:
        raise PyRaise(I.make_exc("AnyException", V.VStr("cannot serialise")), "AnyException")
    if "model_dump_json" in str(fv):
        t = model_json(m)
        I.assume(z3.Not(z3.Contains(t, NL)))
        return V.VStr(t)
    d = model_dump(m)
    I.assume(z3.And(V.is_dict(d), Val.dsize(d) >= 0))
    return d



class GetStreams(Contract):
    """get_streams(): hands out the client's OWN read and write stream ends (not clones): closing the write stream the
    caller was given is what ends the writer loop and closes the child's stdin"""
    key = f"{STDIO}::StdioClient.get_streams"
    prop = "C06"
    covers = ("return",)

    def setup(self, I):
        self.client = ST.make_client(I)
        self.rs = E.make_read_stream(I, "incoming_r")
        I.set_attr(self.client, "_incoming_recv", self.rs, record=False)
        return [self.client], {}

    def post(self, I, result):
        parts = I.client_parts
        r = z3.simplify(result)
        ok = z3.And(V.is_tuple(r), z3.Length(Val.titems(r)) == 2, Val.titems(r)[0] == self.rs,
                    Val.titems(r)[1] == parts["outgoing_send"])
        I.oblige(self.name("returns_the_clients_own_stream_ends"), ok, watch={"result": result})


class C06(Check):
    prop = "C06"
    level = "proof"
    title = ("_stdin_writer: every write to the child's stdin is proved to be exactly one newline-terminated UTF-8 line "
             "with no raw line break, carrying the JSON text of the message being processed, at most one per message; "
             "an exception while serialising/sending skips that message only; stdin is closed when the stream ends")
    design_ref = "section 7, C06"
    trusted = ["codec contract (C17): fast_json.dumps without indent returns compact JSON text without a raw line "
               "break or raises; pydantic model_dump_json likewise",
               "str.replace(old, new) removes every occurrence of old and is the identity when old does not occur "
               "(prelude lemma, audited)",
               "raw CR/LF inside a pre-serialised JSON document can only be insignificant whitespace"]

    def install(self, ctx):
        ST.install(ctx)
        ctx.dynamic_call_hook = dynamic_call
        from checks import C17
        C17.CHECK.install(ctx)

    def modular(self):
        return {f"{ST.FASTJSON}::dumps": ST.DumpsModular()}

    def contracts(self):
        from checks import C17
        # "a message that cannot be serialised is dropped alone" presupposes that every JSON value CAN be serialised:
        # fast_json.dumps' dispatch (fallback to the stdlib when orjson refuses a value) is re-verified here (C17)
        return [StdinWriter(), C17.Dumps(True), C17.Dumps(False), GetStreams()]

    def loop_invariants(self):
        return {(f"{STDIO}::StdioClient._stdin_writer", 0): loop_inv}

    def canaries(self):
        return [
            Canary("newline terminator dropped", STDIO, 'await self.process.stdin.send(f"{json_str}\\n".encode())\n\n                    # Enhanced',
                   'await self.process.stdin.send(f"{json_str}".encode())\n\n                    # Enhanced', "newline_terminated"),
            Canary("return instead of continue in the per-message handler", STDIO,
                   '                    logger.debug("Traceback:\\n%s", traceback.format_exc())\n                    continue',
                   '                    logger.debug("Traceback:\\n%s", traceback.format_exc())\n                    return', "stdin_closed"),
            Canary("raw strings forwarded verbatim again", STDIO,
                   'json_str = message.replace("\\r", "").replace("\\n", "")', "json_str = message", "no_raw_line_break"),
            Canary("stdin never closed", STDIO, "                await self.process.stdin.aclose()\n", "                pass\n",
                   "stdin_closed"),
            Canary("message written twice", STDIO,
                   '                    await self.process.stdin.send(f"{json_str}\\n".encode())\n\n                    # Enhanced',
                   '                    await self.process.stdin.send(f"{json_str}\\n".encode())\n                    await self.process.stdin.send(f"{json_str}\\n".encode())\n\n                    # Enhanced',
                   "at_most_one_line"),
        ]

    def replay(self, name, model, rec):
        return None



    def audits(self, tier):
        # the serialisation of a typed message is repository code only under the pure-python fallback backend; the framing
        # property is exercised there (and under pydantic) by the bounded native search - bounded, never counted as proved
        from checks import native
        return [lambda: native.audit_both_backends("C06.", tier)]

    def bounded_stand_in(self, tier, undecided):
        from checks import native
        return native.stand_in(['C06.', 'C17.'], tier, undecided)

CHECK = C06()
