"""Bounded native searches for the handshake (C03) and the host entry points (C20); see native_stdio.py."""
from __future__ import annotations

import asyncio
import importlib
import itertools
import json
import logging
import os
import tempfile
from unittest import mock


def _quiet():
    logging.disable(logging.CRITICAL)


# ------------------------------------------------------------------------------------------------ C03
async def _c03_one(supported, preferred, behaviour, tracking=False):
    """behaviour: ('answer', version) | ('error', code, message) | ('silent',) | ('close_before',) | ('close_after',)"""
    import anyio
    sm = importlib.import_module("chuk_mcp.protocol.messages.initialize.send_messages")
    jm = importlib.import_module("chuk_mcp.protocol.messages.json_rpc_message")
    c2s_send, c2s_recv = anyio.create_memory_object_stream(20)      # client -> server
    s2c_send, s2c_recv = anyio.create_memory_object_stream(20)      # server -> client
    written = []

    async def server():
        async for m in c2s_recv:
            d = m if isinstance(m, dict) else m.model_dump(exclude_none=True)
            written.append(d)
            if d.get("method") != "initialize":
                continue
            kind = behaviour[0]
            if kind == "answer":
                await s2c_send.send(jm.parse_message({"jsonrpc": "2.0", "id": d["id"], "result": {
                    "protocolVersion": behaviour[1], "capabilities": {}, "serverInfo": {"name": "s", "version": "1"}}}))
            elif kind == "error":
                await s2c_send.send(jm.parse_message({"jsonrpc": "2.0", "id": d["id"], "error": {"code": behaviour[1], "message": behaviour[2]}}))
            elif kind == "close_before":
                await s2c_send.aclose()
            elif kind == "close_after":
                await s2c_send.send(jm.parse_message({"jsonrpc": "2.0", "id": d["id"], "result": {
                    "protocolVersion": behaviour[1], "capabilities": {}, "serverInfo": {"name": "s", "version": "1"}}}))
                await c2s_recv.aclose()          # the peer goes away right after answering: the notification cannot be written
                return
    outcome = None
    async with anyio.create_task_group() as tg:
        tg.start_soon(server)
        try:
            kw = dict(timeout=0.3)
            if supported is not None:
                kw["supported_versions"] = list(supported)
            if preferred is not None:
                kw["preferred_version"] = preferred
            r = await sm.send_initialize(s2c_recv, c2s_send, **kw)
            outcome = ("ok", str(getattr(r, "protocolVersion", None)) if r is not None else None)
        except BaseException as ex:      # noqa: BLE001
            if isinstance(ex, (KeyboardInterrupt, SystemExit)):
                raise
            outcome = ("raised", type(ex).__name__)
        await anyio.sleep(0.02)
        tg.cancel_scope.cancel()
    return outcome, written


def search_c03(tier="quick"):
    _quiet()
    import anyio
    ver = importlib.import_module("chuk_mcp.protocol.types.versioning")
    lib = list(ver.SUPPORTED_VERSIONS)
    lists = [None, lib[:2], [lib[-1]], ["2024-11-05", "1999-01-01"], list(reversed(lib))]
    n = 0
    for sup, pref in itertools.product(lists, (None, "2024-11-05", "nonsense")):
        eff = lib if sup is None else sup
        proposed = pref if (pref and pref in eff) else eff[0]
        answers = sorted(set(eff) | set(lib) | {"1999-01-01", "2030-01-01", ""})
        behaviours = [("answer", v) for v in answers] + [("error", -32602, "Unsupported protocol version"), ("error", -32603, "boom"),
                                                        ("error", -32001, "auth"), ("silent",), ("close_before",)] + \
                     [("close_after", v) for v in eff[:1]]
        for b in behaviours:
            n += 1
            try:
                outcome, written = anyio.run(_c03_one, sup, pref, b)
            except BaseException as ex:      # noqa: BLE001
                return dict(reproduced=False, error=f"harness: {type(ex).__name__}: {ex}")
            inp = dict(supported_versions=sup, preferred_version=pref, server=list(b))
            inits = [w for w in written if w.get("method") == "initialize"]
            done = [w for w in written if w.get("method") == "notifications/initialized"]
            if len(inits) != 1 or written[0] is not inits[0] or (inits[0].get("params") or {}).get("protocolVersion") != proposed:
                return dict(reproduced=True, input=inp, observed=f"written {written}"[:500],
                            required=f"first an initialize request proposing {proposed!r}")
            if outcome[0] == "ok":
                ok = b[0] in ("answer",) and b[1] in eff and outcome[1] == b[1] and len(done) == 1 and written[-1] is done[0]
                if not ok:
                    return dict(reproduced=True, input=inp, observed=f"succeeded with {outcome[1]!r}; initialized notifications written: {len(done)}",
                                required=f"success only with an answered version from {eff}, followed by exactly one initialized notification")
            else:
                if done and b[0] != "close_after":
                    return dict(reproduced=True, input=inp, observed=f"{outcome}, yet an initialized notification was written",
                                required="no initialized notification after a failed handshake")
                if b[0] == "answer" and b[1] in eff:
                    return dict(reproduced=True, input=inp, observed=str(outcome), required=f"success with {b[1]!r}")
            if b[0] == "close_after" and outcome[0] == "ok":
                return dict(reproduced=True, input=inp, observed="reported success although the initialized notification could not be written",
                            required="a failure to complete the handshake is reported")
    return dict(reproduced=False, cases=n, bound="5 supported lists x 3 preferred versions x every answer version of interest, 3 error replies, "
                                                 "silence, stream closed before / right after the answer (bounded, not a proof)")


# ------------------------------------------------------------------------------------------------ C20
class _FakeStdin:
    def __init__(self, proc):
        self.proc = proc

    async def send(self, data):
        for line in data.decode().splitlines():
            try:
                d = json.loads(line)
            except ValueError:
                continue
            if d.get("method") == "initialize":
                self.proc.answers.put_nowait(json.dumps({"jsonrpc": "2.0", "id": d["id"], "result": {
                    "protocolVersion": d["params"]["protocolVersion"], "capabilities": {},
                    "serverInfo": {"name": self.proc.argv[0], "version": "1"}}}).encode() + b"\n")

    async def aclose(self):
        pass


class _FakeStdout:
    def __init__(self, proc):
        self.proc = proc

    def __aiter__(self):
        return self

    async def __anext__(self):
        return await self.proc.answers.get()


class _FakeProcess:
    def __init__(self, argv, env):
        self.argv, self.env = list(argv), env
        self.answers = asyncio.Queue()
        self.stdin, self.stdout, self.stderr = _FakeStdin(self), _FakeStdout(self), None
        self.returncode = None
        self.pid = 4242

    def terminate(self):
        self.returncode = -15

    def kill(self):
        self.returncode = -9

    async def wait(self):
        return self.returncode

    async def aclose(self):
        pass


def _c20_run(servers_in_file, names, missing_on_path=()):
    """run the real run_command over a config file; returns (spawns, connected server names as seen by the command)"""
    sm = importlib.import_module("chuk_mcp.mcp_client.host.server_manager")
    sc = importlib.import_module("chuk_mcp.transports.stdio.stdio_client")
    spawns, seen = [], []

    async def open_process(command, **kw):
        argv = list(command) if not isinstance(command, str) else [command]
        if argv and argv[0] in missing_on_path:
            raise FileNotFoundError(argv[0])
        spawns.append(dict(argv=argv, env=kw.get("env")))
        return _FakeProcess(argv, kw.get("env"))

    async def command(server_streams, **kw):
        seen.append(len(server_streams))
    with tempfile.TemporaryDirectory() as d:
        path = os.path.join(d, "cfg.json")
        with open(path, "w") as f:
            json.dump({"mcpServers": servers_in_file}, f)
        with mock.patch.object(sc.anyio, "open_process", open_process), mock.patch.object(os, "system", lambda *_a: 0), \
                mock.patch("builtins.print", lambda *a, **k: None):
            sm.run_command(command, path, names)
    return spawns, seen


def search_c20(tier="quick"):
    _quiet()
    n = 0
    cfg = {"alpha": {"command": "alpha-bin", "args": ["--x", "1"], "env": {"K": "V"}},
           "epsilon": {"command": "eps", "args": ["--label", "", "a b", "\"q\"", "--", "caf\u00e9", "0"], "env": {}},
           "beta": {"command": "beta-bin"},
           "gamma": {"command": "/opt/g/gamma", "args": [], "timeout": "2.5"},
           "delta": {"command": "python3", "args": ["-c", "pass  # a bare name that IS on the host PATH"], "env": {"PATH": "/nonexistent/venv/bin"}},
           "broken": {"args": ["no-command"]}}
    name_lists = [["alpha"], ["beta"], ["gamma"], ["alpha", "beta"], ["alpha", "nope", "beta"], ["nope", "alpha"], ["alpha", "broken", "gamma"],
                  ["nope"], ["beta", "beta"], ["delta"], ["delta", "alpha"], ["epsilon"], ["alpha", "epsilon"]]
    for names in name_lists:
        n += 1
        try:
            spawns, seen = _c20_run(cfg, names)
        except BaseException as ex:      # noqa: BLE001
            if isinstance(ex, (KeyboardInterrupt, SystemExit)):
                raise
            return dict(reproduced=False, error=f"harness: {type(ex).__name__}: {ex}")
        want = []
        for nm in names:
            c = cfg.get(nm)
            if c and "command" in c:
                want.append([c["command"], *c.get("args", [])])
        got = [s["argv"] for s in spawns]
        if got != want:
            return dict(reproduced=True, input=dict(config=cfg, server_names=names), observed=f"spawned {got}",
                        required=f"exactly the configured servers, in order: {want}")
        for s, nm in zip(spawns, [x for x in names if cfg.get(x) and "command" in cfg[x]]):
            env = cfg[nm].get("env")
            if env is not None and not all((s["env"] or {}).get(k) == v for k, v in env.items()):
                return dict(reproduced=True, input=dict(config=cfg, server_names=names), observed=f"{nm} spawned with env {s['env']}",
                            required=f"the configured environment {env}")
        if want and seen != [len(want)]:
            return dict(reproduced=True, input=dict(config=cfg, server_names=names), observed=f"the command saw {seen} connection(s)",
                        required=f"{len(want)} initialised connection(s)")
    # a command that is not on PATH is a spawn failure of that server only; nothing else is launched in its place
    n += 1
    spawns, seen = _c20_run(cfg, ["alpha", "beta"], missing_on_path=("alpha-bin",))
    if [s["argv"] for s in spawns] != [["beta-bin"]]:
        return dict(reproduced=True, input=dict(server_names=["alpha", "beta"], not_on_path="alpha-bin"),
                    observed=f"spawned {[s['argv'] for s in spawns]}", required="only beta-bin (alpha's spawn fails, nothing is substituted)")
    return dict(reproduced=False, cases=n, bound=f"{len(name_lists)} server-name lists over a 6-entry config, one spawn failure (bounded, not a proof)")


REGISTRY = {"C03.": search_c03, "C20.": search_c20}


# ------------------------------------------------------------------------------------------------ C02
def search_c02(tier="quick"):
    """the four envelope constructors and parse_message of the real tree: the exclude_none dump is a valid JSON-RPC 2.0
    envelope that keeps id (value and type), method, params, result, error; parse_message returns the same kind and members"""
    _quiet()
    jm = importlib.import_module("chuk_mcp.protocol.messages.json_rpc_message")
    ids = [0, 1, -5, 2 ** 53 + 1, "", "0", "abc", "a\nb", "7"]
    n = 0

    def envelope_problems(d, kind, want):
        if d.get("jsonrpc") != "2.0":
            return f"jsonrpc member is {d.get('jsonrpc')!r}"
        for k, v in want.items():
            if k not in d or d[k] != v or type(d[k]) is not type(v):
                return f"member {k!r} is {d.get(k, '<absent>')!r}, required {v!r}"
        has = {k for k in ("id", "method", "result", "error") if k in d}
        need = {"request": {"id", "method"}, "notification": {"method"}, "response": {"id", "result"}, "error": {"id", "error"}}[kind]
        if has != need:
            return f"members present {sorted(has)}, required {sorted(need)}"
        return None
    cases = []
    for i in ids:
        cases.append(("request", lambda i=i: jm.create_request("tools/call", {"a": [1, None]}, id=i), dict(id=i, method="tools/call", params={"a": [1, None]})))
        cases.append(("request", lambda i=i: jm.create_request("tools/call", {"name": "t", "arguments": {"n": None, "o": {"m": None}}}, id=i),
                      dict(id=i, method="tools/call", params={"name": "t", "arguments": {"n": None, "o": {"m": None}}})))
        cases.append(("response", lambda i=i: jm.create_response(i, {"v": None, "o": {"n": None}, "l": [], "z": 0, "f": False, "e": ""}),
                      dict(id=i, result={"v": None, "o": {"n": None}, "l": [], "z": 0, "f": False, "e": ""})))
        cases.append(("request", lambda i=i: jm.create_request("ping", None, id=i), dict(id=i, method="ping")))
        cases.append(("response", lambda i=i: jm.create_response(i, {"x": 1}), dict(id=i, result={"x": 1})))
        cases.append(("response", lambda i=i: jm.create_response(i, None), dict(id=i, result={})))
        cases.append(("error", lambda i=i: jm.create_error_response(i, -32601, "nope"), dict(id=i)))
    cases.append(("notification", lambda: jm.create_notification("notifications/initialized", None), dict(method="notifications/initialized")))
    cases.append(("notification", lambda: jm.create_notification("n", {"k": "v"}), dict(method="n", params={"k": "v"})))
    base = importlib.import_module("chuk_mcp.protocol.mcp_pydantic_base")
    fallback = not getattr(base, "PYDANTIC_AVAILABLE", True)
    classified = []
    for kind, build, want in cases:
        n += 1
        try:
            m = build()
            d = m.model_dump(exclude_none=True)
        except Exception as ex:      # noqa: BLE001
            return dict(reproduced=True, input=dict(kind=kind, members=want), observed=f"{type(ex).__name__}: {ex}", required="an envelope")
        p = envelope_problems(d, kind, want)
        wid = want.get("id")
        if p and fallback and isinstance(wid, str) and wid.lstrip("-").isdigit() and d.get("id") == int(wid):
            # the pure-python backend converts a digit-string id into an int (deliberate "permissive int" coercion for
            # Union[str, int] fields): a failure of "id kept with value and type" of a NAMED class, reported separately
            if not classified:
                classified.append(dict(cls="fallback-backend-coerces-digit-string-ids", input=dict(kind=kind, members=want),
                                       observed=f"emitted id {d.get('id')!r} ({type(d.get('id')).__name__})",
                                       required=f"id {wid!r} kept with its JSON type"))
            continue
        if p is None and kind == "error":
            e = d.get("error")
            if not (isinstance(e, dict) and e.get("code") == -32601 and e.get("message") == "nope"):
                p = f"error member {e!r}"
        if p:
            return dict(reproduced=True, input=dict(kind=kind, members=want), observed=f"{p}; dump {d}"[:500],
                        required="a valid JSON-RPC 2.0 envelope keeping every given member (id by value and type)")
        try:
            back = jm.parse_message(json.loads(json.dumps(d)))
        except Exception as ex:      # noqa: BLE001
            return dict(reproduced=True, input=d, observed=f"parse_message raised {type(ex).__name__}: {ex}", required="the library's own parser accepts what it emits")
        bd = back.model_dump(exclude_none=True)
        p = envelope_problems(bd, kind, {k: v for k, v in d.items() if k in ("id", "method", "params", "result", "error")})
        if p:
            return dict(reproduced=True, input=d, observed=f"parsed back as {bd}: {p}"[:500], required="the same kind with identical members")
    # responses whose result is falsy but present (the parser must go by member presence, not truthiness)
    for res in ({}, [], 0, "", False, 0.0):
        n += 1
        d = {"jsonrpc": "2.0", "id": 1, "result": res}
        try:
            back = jm.parse_message(d).model_dump(exclude_none=True)
        except Exception as ex:      # noqa: BLE001
            if isinstance(res, dict):
                return dict(reproduced=True, input=d, observed=f"parse_message raised {type(ex).__name__}: {ex}", required="a response")
            continue      # non-object results are outside the typed envelope (see C11 known finding)
        if back.get("result") != res or "error" in back or "method" in back:
            return dict(reproduced=True, input=d, observed=f"parsed back as {back}", required="the same response")
    return dict(reproduced=False, cases=n, classified=classified,
                bound=f"{len(ids)} ids x 7 constructor calls + 2 notifications + 6 falsy results (bounded, not a proof)")


REGISTRY["C02."] = search_c02
