"""C20 - every host entry point launches exactly the server the configuration names."""
from __future__ import annotations

import z3

from pyvc import vals as V
from pyvc.vals import Val
from pyvc import prelude as P
from pyvc import envs as E
from pyvc import pyd
from pyvc.core import PyRaise, PathEnd, FnDesc
from pyvc.check import Check, Canary
from pyvc.verify import Contract
from pyvc.loader import Unsupported

CONFIG = "src/chuk_mcp/config.py"
MANAGER = "src/chuk_mcp/mcp_client/host/server_manager.py"
MAIN = "src/chuk_mcp/__main__.py"
STDIO = "src/chuk_mcp/transports/stdio/stdio_client.py"
PARAMS = "src/chuk_mcp/transports/stdio/parameters.py"
ENVMOD = "src/chuk_mcp/mcp_client/host/environment.py"
INIT = "src/chuk_mcp/protocol/messages/initialize/send_messages.py"


def klass(I, key):
    return I.ctx.repo_class(I.ctx.repo.klass(key))


# --------------------------------------------------------------------------- file system / json environment
class FileEnv(E.EnvClass):
    name = "File"

    def __init__(self):
        self.methods = {"__enter__": lambda I, r, a, k: r, "__exit__": lambda I, r, a, k, exc=None: V.FALSE,
                        "read": lambda I, r, a, k: E.gfield(I, r, "text")}


FILE = FileEnv()


def x_open(I, args, kwargs, node):
    """open(path): the file exists (returns a handle whose content is the ghost text) or FileNotFoundError."""
    mode = getattr(I, "fs_mode", None)
    if mode == "missing" or (mode is None and I.choose_n(2, "open_outcome") == 1):
        I.throw("FileNotFoundError", "No such file or directory")
    return E.new_env_object(I, FILE, text=V.VStr(I.fresh("file_text", z3.StringSort())), path=args[0])


def x_json_load(I, args, kwargs, node):
    """json.load(f): the parsed document (any JSON value; the check constrains it to the property's
    'valid configuration' shape) or JSONDecodeError carrying msg/doc/pos."""
    mode = getattr(I, "json_mode", None)
    if mode == "invalid" or (mode is None and I.choose_n(2, "json_outcome") == 1):
        ev = I.make_exc("JSONDecodeError", V.VStr(I.fresh("jmsg", z3.StringSort())),
                        doc=V.VStr(I.fresh("jdoc", z3.StringSort())), pos=V.VInt(I.fresh_int("jpos")))
        I.set_attr(ev, "msg", V.VStr(I.fresh("jmsg2", z3.StringSort())), record=False)
        raise PyRaise(ev, "JSONDecodeError")
    return I.config_doc


def make_config(I, want_server=True):
    """The parsed configuration document: {"mcpServers": {name: {command, args?, env?, timeout?, ...}}, ...}
    for an arbitrary set of servers (the entry under the requested name is arbitrary but valid)."""
    doc = I.fresh("config_doc")
    servers = z3.Select(Val.dvals(doc), z3.StringVal("mcpServers"))
    I.assume(z3.And(V.is_dict(doc), Val.dsize(doc) >= 0))
    I.assume(z3.Implies(z3.Select(Val.dkeys(doc), z3.StringVal("mcpServers")),
                        z3.And(V.is_dict(servers), Val.dsize(servers) >= 0, Val.dsize(doc) >= 1)))
    I.config_doc = doc
    return doc


def server_entry(I, doc, name):
    """(present, entry) for server `name` (z3 String)"""
    servers = z3.Select(Val.dvals(doc), z3.StringVal("mcpServers"))
    has_servers = z3.Select(Val.dkeys(doc), z3.StringVal("mcpServers"))
    present = z3.And(has_servers, z3.Select(Val.dkeys(servers), name))
    return present, z3.Select(Val.dvals(servers), name)


def valid_entry(e):
    """'valid server configuration' from the property's quantifier: command str, args list (absent -> []),
    env absent/None/dict, timeout absent/None/int/float/string-number, extra keys allowed"""
    def has(k):
        return z3.Select(Val.dkeys(e), z3.StringVal(k))

    def val(k):
        return z3.Select(Val.dvals(e), z3.StringVal(k))
    return z3.And(V.is_dict(e), Val.dsize(e) >= 1, has("command"), V.is_str(val("command")),
                  z3.Length(Val.s(val("command"))) > 0,
                  z3.Implies(has("args"), V.is_list(val("args"))),
                  z3.Implies(has("env"), z3.Or(V.is_none(val("env")), V.is_dict(val("env")))),
                  z3.Implies(has("timeout"), z3.Or(V.is_none(val("timeout")), V.is_int(val("timeout")),
                                                   V.is_real(val("timeout")),
                                                   z3.And(V.is_str(val("timeout")), P.float_ok(val("timeout"))))))


class LoadConfig(Contract):
    key = f"{CONFIG}::load_config"
    prop = "C20"

    def __init__(self, scenario):
        self.scenario = scenario         # valid | missing_file | invalid_json | unknown_server

    @property
    def covers(self):
        return {"valid": ("return",), "missing_file": ("raise:FileNotFoundError",),
                "invalid_json": ("raise:JSONDecodeError",), "unknown_server": ("raise:ValueError",)}[self.scenario]

    def setup(self, I):
        self.path = I.fresh("config_path")
        self.name_v = I.fresh("server_name")
        I.assume(z3.And(V.is_str(self.path), V.is_str(self.name_v)))
        doc = make_config(I)
        present, entry = server_entry(I, doc, Val.s(self.name_v))
        self.entry = entry
        I.fs_mode = "missing" if self.scenario == "missing_file" else "exists"
        I.json_mode = "invalid" if self.scenario == "invalid_json" else "ok"
        if self.scenario == "valid":
            I.assume(z3.And(present, valid_entry(entry)))
        elif self.scenario == "unknown_server":
            I.assume(z3.Not(present))
        return [self.path, self.name_v], {}

    def post(self, I, result):
        nm = lambda c: self.name(f"{c}[{self.scenario}]")
        if self.scenario != "valid":
            I.oblige(nm("configuration_error_must_raise"), z3.BoolVal(False))
            return
        e = self.entry

        def has(k):
            return z3.Select(Val.dkeys(e), z3.StringVal(k))

        def val(k):
            return z3.Select(Val.dvals(e), z3.StringVal(k))
        it = Val.titems(result)
        p, t = it[0], it[1]
        o = Val.oid(p)
        pcd = klass(I, f"{PARAMS}::StdioParameters")

        def fld(n):
            return z3.Select(I.st.field(n)[0], o)
        I.oblige(nm("returns_parameters_and_timeout_pair"),
                 z3.And(V.is_tuple(result), z3.Length(it) == 2, V.is_obj(p), z3.Select(I.st.cls, o) == pcd.cid))
        I.oblige(nm("command_is_the_configured_command"), fld("command") == val("command"), watch={"entry": e})
        I.oblige(nm("args_are_the_configured_args"),
                 z3.If(has("args"), fld("args") == val("args"),
                       z3.And(V.is_list(fld("args")), z3.Length(Val.items(fld("args"))) == 0)), watch={"entry": e})
        I.oblige(nm("env_is_the_configured_env"), fld("env") == z3.If(has("env"), val("env"), V.NONE),
                 watch={"entry": e})
        tv = val("timeout")
        want_none = z3.Or(z3.Not(has("timeout")), V.is_none(tv))
        I.oblige(nm("timeout_is_the_configured_number_or_none"),
                 z3.If(want_none, V.is_none(t),
                       z3.And(V.is_real(t),
                              z3.Implies(V.is_int(tv), Val.r(t) == z3.ToReal(Val.i(tv))),
                              z3.Implies(V.is_real(tv), Val.r(t) == Val.r(tv)),
                              z3.Implies(V.is_str(tv), Val.r(t) == P.float_of(tv)))), watch={"entry": e})

    def post_exc(self, I, e):
        want = {"missing_file": "FileNotFoundError", "invalid_json": "JSONDecodeError",
                "unknown_server": "ValueError"}.get(self.scenario)
        I.oblige(self.name(f"surfaces_as_the_documented_exception[{self.scenario}][{e.cls_name}]"),
                 z3.BoolVal(e.cls_name == want), watch={"entry": self.entry})


# --------------------------------------------------------------------------- call-site contracts for entry points
class LoadConfigModular(Contract):
    """call-site form of load_config's contract: returns (StdioParameters, timeout) or raises"""
    key = f"{CONFIG}::load_config"

    def apply(self, I, args, kwargs, node):
        if I.choose_n(2, "load_config_outcome") == 1:
            k = ["FileNotFoundError", "JSONDecodeError", "ValueError"][I.choose_n(3, "load_config_error")]
            I.throw(k, "configuration error")
        cmd, a, env = I.fresh("cfg_command"), I.fresh("cfg_args"), I.fresh("cfg_env")
        I.assume(z3.And(V.is_str(cmd), z3.Length(Val.s(cmd)) > 0, V.is_list(a), z3.Or(V.is_none(env), V.is_dict(env))))
        p = I.new_object(klass(I, f"{PARAMS}::StdioParameters"),
                         {"command": cmd, "args": a, "env": env, pyd.EXTRA: V.VDict([])})
        t = I.fresh("cfg_timeout")
        I.assume(z3.Or(V.is_none(t), V.is_real(t)))
        I.ghost["loaded"] = dict(params=p, name=args[1] if len(args) > 1 else kwargs.get("server_name"),
                                 path=args[0] if args else kwargs.get("config_path"), command=cmd, args=a, env=env)
        return V.VTuple([p, t])


class ClientCM(E.EnvClass):
    """the context manager returned by stdio_client(server): entering spawns the configured process"""
    name = "StdioClientCM"

    def __init__(self):
        self.methods = {"__aenter__": E.is_async(self.aenter), "__aexit__": E.is_async(self.aexit)}

    def aenter(self, I, recv, args, kwargs):
        if I.choose_n(2, "spawn_outcome") == 1:
            raise PyRaise(I.make_exc("AnyException", V.VStr("spawn failed")), "AnyException")
        rs, ws = E.make_read_stream(I, "rs"), E.make_write_stream(I, "ws")
        I.ghost["entered"] = dict(cm=recv, streams=(rs, ws), server=E.gfield(I, recv, "server"))
        return V.VTuple([rs, ws])

    def aexit(self, I, recv, args, kwargs, exc=None):
        return V.FALSE


CLIENT_CM = ClientCM()


class StdioClientModular(Contract):
    """stdio_client(server) REQUIRES a StdioParameters (command, args, env) - the callee precondition that the
    multi-server runner violated; and it must be exactly the object the loader returned."""
    key = f"{STDIO}::stdio_client"

    def apply(self, I, args, kwargs, node):
        server = args[0] if args else kwargs.get("server")
        pfx = I.callsite_prefix
        pcd = klass(I, f"{PARAMS}::StdioParameters")
        inst = P.isinstance_term(I, server, V.VCls(pcd.cid), node)
        I.oblige(f"{pfx}.stdio_client.requires_StdioParameters", inst, watch={"argument": server})
        loaded = I.ghost.get("loaded")
        I.oblige(f"{pfx}.stdio_client.launches_exactly_the_loaded_configuration",
                 z3.BoolVal(loaded is not None) if loaded is None else server == loaded["params"],
                 watch={"argument": server})
        if loaded is not None:
            # ... and still carrying what the loader read: command, args and env are not edited on the way to the spawn
            same = []
            for f in ("command", "args", "env"):
                v, h = I.get_field(server, f)
                same.append(z3.And(h, v == loaded[f]))
            I.oblige(f"{pfx}.stdio_client.configured_command_args_env_reach_the_spawn_unedited", z3.And(same),
                     watch={"argument": server})
        return E.new_env_object(I, CLIENT_CM, server=server)


class SendInitializeModular(Contract):
    key = f"{INIT}::send_initialize"

    def apply(self, I, args, kwargs, node):
        pfx = I.callsite_prefix
        ent = I.ghost.get("entered")
        rs = args[0] if args else kwargs.get("read_stream")
        ws = args[1] if len(args) > 1 else kwargs.get("write_stream")
        ok = z3.BoolVal(False) if ent is None else z3.And(rs == ent["streams"][0], ws == ent["streams"][1])
        I.oblige(f"{pfx}.reaches_the_initialize_handshake_on_the_launched_servers_streams", ok)
        I.ghost["handshakes"] = I.ghost.get("handshakes", 0) + 1
        raise PathEnd("handshake reached: the rest of the entry point is outside this property")


class HostEntry(Contract):
    prop = "C20"

    def setup_common(self, I):
        I.callsite_prefix = f"C20.{self.key.split('::')[1]}"
        self.path = I.fresh("config_path")
        I.assume(V.is_str(self.path))

    def post(self, I, result):
        pass

    def post_exc(self, I, e):
        pass


class TestServerEntry(HostEntry):
    key = f"{MAIN}::test_server"
    covers = ()

    def setup(self, I):
        self.setup_common(I)
        name = I.fresh("server_name")
        I.assume(V.is_str(name))
        return [self.path, name], {}


class RunCommandEntry(HostEntry):
    key = f"{MANAGER}::run_command"
    covers = ()

    def setup(self, I):
        self.setup_common(I)
        names = I.fresh("server_names", V.SeqVal)
        I.assume(z3.Length(names) >= 1)
        cf = E.make_callback(I)
        return [cf, self.path, V.VList(names)], {}


def x_anyio_run(I, args, kwargs, node):
    return I.call(args[0], list(args[1:]), {}, node, awaited=True)


def x_noop(I, args, kwargs, node):
    return V.NONE


def x_which(I, args, kwargs, node):
    """shutil.which(cmd): None, or the path of some executable found on the HOST's PATH"""
    if I.choose_n(2, "which_outcome") == 1:
        return V.NONE
    p = I.fresh("which_path")
    I.assume(z3.And(V.is_str(p), z3.Length(Val.s(p)) > 0))
    return p


def x_opaque(I, args, kwargs, node):
    return I.new_object(I.ctx.env_class(OPAQUE))


class OpaqueEnv(E.EnvClass):
    name = "Opaque"
    methods = {}


OPAQUE = OpaqueEnv()


def x_wait_for(I, args, kwargs, node):
    c = I.choose_n(3, "wait_for_outcome")
    if c == 0:
        return I.fresh("awaited")
    I.throw(["TimeoutError", "AnyException"][c - 1], "")


# --------------------------------------------------------------------------- the spawn itself
class SpawnEnv:
    pass


def x_open_process(I, args, kwargs, node):
    """anyio.open_process(argv, env=..., ...): records the spawn (ghost) or raises OSError"""
    if I.choose_n(2, "open_process_outcome") == 1:
        I.throw("FileNotFoundError", "No such file or directory")
    I.ghost.setdefault("spawned", []).append((args[0], kwargs.get("env", V.NONE), dict(kwargs)))
    return E.new_env_object(I, PROCESS, pid=V.VInt(I.fresh_int("pid")), returncode=V.NONE,
                            stdin=V.NONE, stdout=V.NONE)


class ProcessEnv(E.EnvClass):
    name = "Process"
    methods = {}


PROCESS = ProcessEnv()


class TaskGroupEnv(E.EnvClass):
    name = "TaskGroup"

    def __init__(self):
        self.methods = {"__aenter__": E.is_async(lambda I, r, a, k: r),
                        "__aexit__": E.is_async(lambda I, r, a, k, exc=None: V.FALSE),
                        "start_soon": self.start_soon}

    def start_soon(self, I, recv, args, kwargs):
        I.ghost.setdefault("started", []).append(args[0])
        return V.NONE


TASK_GROUP = TaskGroupEnv()


def x_create_task_group(I, args, kwargs, node):
    return E.new_env_object(I, TASK_GROUP)


def x_create_memory_object_stream(I, args, kwargs, node):
    return V.VTuple([E.make_write_stream(I, "mem_s"), E.make_read_stream(I, "mem_r")])


INHERITED = ("HOME", "LOGNAME", "PATH", "SHELL", "TERM", "USER")


def x_environ_get(I, args, kwargs, node):
    """os.environ.get(name[, default]): the host environment is an arbitrary map from names to strings"""
    env = I.ghost.get("host_env")
    if env is None:
        env = I.fresh("host_env")
        I.assume(z3.And(V.is_dict(env), Val.dsize(env) >= 0))
        I.ghost["host_env"] = env
    k = z3.simplify(args[0])
    if V.ctor_name(k) != "str":
        raise Unsupported("os.environ.get with a non-str name", node)
    ks = Val.s(k)
    val = z3.Select(Val.dvals(env), ks)
    I.assume(z3.Implies(z3.Select(Val.dkeys(env), ks), z3.And(V.is_str(val), Val.dsize(env) >= 1)))
    return z3.If(z3.Select(Val.dkeys(env), ks), val, args[1] if len(args) > 1 else V.NONE)


class DefaultEnvironment(Contract):
    """get_default_environment(): exactly the inherited names that are set, non-empty and not exported shell functions,
    each with the host's value (what a server configured without `env` is launched with)"""
    key = f"{ENVMOD}::get_default_environment"
    prop = "C20"
    covers = ("return",)

    def setup(self, I):
        env = I.fresh("host_env")
        I.assume(z3.And(V.is_dict(env), Val.dsize(env) >= 0))
        I.ghost["host_env"] = env
        self.env = env
        return [], {}

    def post(self, I, result):
        conds, count = [V.is_dict(result)], z3.IntVal(0)
        for n in INHERITED:
            k = z3.StringVal(n)
            hv = z3.Select(Val.dvals(self.env), k)
            want = z3.And(z3.Select(Val.dkeys(self.env), k), V.is_str(hv), z3.Length(Val.s(hv)) > 0,
                          z3.Not(z3.PrefixOf(z3.StringVal("()"), Val.s(hv))))
            conds.append(z3.Select(Val.dkeys(result), k) == want)
            conds.append(z3.Implies(want, z3.Select(Val.dvals(result), k) == hv))
            count = count + z3.If(want, 1, 0)
        conds.append(Val.dsize(result) == count)
        I.oblige(self.name("inherits_exactly_the_set_and_safe_variables_with_the_hosts_values"), z3.And(conds),
                 watch={"host_env": self.env, "result": result})


# --------------------------------------------------------------------------- the CLI's choice of configuration file
MAINMOD = "src/chuk_mcp/__main__.py"


class ArgsEnv(E.EnvClass):
    name = "ArgparseNamespace"
    methods = {}


class ParserEnv(E.EnvClass):
    """argparse.ArgumentParser: add_argument declares, parse_args returns the namespace of this invocation"""
    name = "ArgumentParser"

    def __init__(self):
        self.methods = {"add_argument": lambda I, r, a, k: V.NONE, "parse_args": self.parse_args}

    def parse_args(self, I, recv, args, kwargs):
        return I.c20cli.args_obj


class PathEnv(E.EnvClass):
    """pathlib.Path(p): exists() / is_file() are facts about the file system (any bool)"""
    name = "PathlibPath"

    def __init__(self):
        self.methods = {"exists": lambda I, r, a, k: V.VBool(I.fresh_bool("path_exists")),
                        "is_file": lambda I, r, a, k: V.VBool(I.fresh_bool("path_is_file")),
                        "__str__": lambda I, r, a, k: E.gfield(I, r, "text")}


ARGS_ENV, PARSER_ENV, PATH_ENV = ArgsEnv(), ParserEnv(), PathEnv()


class FindDefaultModular(Contract):
    key = f"{MAINMOD}::find_default_config"

    def apply(self, I, args, kwargs, node):
        if I.choose_n(2, "default_config_found") == 1:
            return V.NONE
        p = I.fresh("default_config_path")
        I.assume(z3.And(V.is_str(p), z3.Length(Val.s(p)) > 0))
        return p


class RecordPathModular(Contract):
    """list_servers(config_path) / setup_logging(...): recorded, no effect"""

    def __init__(self, key, record):
        self.key, self.record = key, record

    def apply(self, I, args, kwargs, node):
        if self.record:
            I.c20cli.used_paths.append(args[0])
        return V.NONE


class CliMain(Contract):
    """main(): a configuration file named on the command line is THE configuration - it is what list_servers / the test
    run get, whether or not that file exists (a missing file is reported by the loader, never silently replaced by a
    default found elsewhere); the default search runs only when no --config was given"""
    key = f"{MAINMOD}::main"
    prop = "C20"
    covers = ("return", "raise:SystemExit")

    def setup(self, I):
        I.c20cli = self
        self.used_paths = []
        ctx = I.ctx
        for e in (ARGS_ENV, PARSER_ENV, PATH_ENV):
            ctx.env_class(e)
        cfg = I.fresh("arg_config")
        I.assume(z3.Or(V.is_none(cfg), z3.And(V.is_str(cfg), z3.Length(Val.s(cfg)) > 0)))
        self.cfg = cfg
        server = I.fresh("arg_server")
        I.assume(V.is_str(server))
        self.args_obj = E.new_env_object(I, ARGS_ENV, config=cfg, server=server, verbose=V.VBool(I.fresh_bool("verbose")),
                                         list_servers=V.VBool(I.fresh_bool("list_servers")))
        ctx.extern_handlers["argparse.ArgumentParser"] = lambda I2, a, k, n: E.new_env_object(I2, PARSER_ENV)
        ctx.extern_values = dict(getattr(ctx, "extern_values", {}) or {})
        ctx.extern_handlers["pathlib.Path"] = lambda I2, a, k, n: E.new_env_object(I2, PATH_ENV, text=a[0] if a else V.VStr("."))

        def run(I2, a, k, n):
            self.used_paths.append(a[1] if len(a) > 1 else V.NONE)
            return V.VBool(I2.fresh_bool("test_succeeded"))
        ctx.extern_handlers["anyio.run"] = run
        ctx.extern_handlers["sys.exit"] = lambda I2, a, k, n: I2.throw("SystemExit", "exit")
        return [], {}

    def judge(self, I):
        given = z3.Not(V.is_none(self.cfg))
        ok = [z3.Implies(given, p == self.cfg) for p in self.used_paths]
        I.oblige(self.name("a_config_named_on_the_command_line_is_the_one_used"), z3.And(ok) if ok else z3.BoolVal(True),
                 watch={"--config": self.cfg, "used": V.VList(self.used_paths) if self.used_paths else V.VList([])})

    def post(self, I, result):
        self.judge(I)

    def post_exc(self, I, e):
        if e.cls_name == "SystemExit":
            self.judge(I)
        else:
            I.oblige(self.name(f"only_exits_through_sys_exit[{e.cls_name}]"), z3.BoolVal(False))


class DefaultEnvModular(Contract):
    key = f"{ENVMOD}::get_default_environment"

    def apply(self, I, args, kwargs, node):
        d = I.fresh("default_env")
        I.assume(z3.And(V.is_dict(d), Val.dsize(d) >= 0))
        for k in ("LOG_LEVEL", "LOGGING_LEVEL"):       # environment values are strings
            I.assume(z3.Implies(z3.Select(Val.dkeys(d), z3.StringVal(k)),
                                z3.And(Val.dsize(d) >= 1, V.is_str(z3.Select(Val.dvals(d), z3.StringVal(k))))))
        I.ghost["default_env"] = d
        return d


class SpawnContract(Contract):
    """StdioClient(server).__aenter__() spawns exactly [command, *args] with env = configured env if it is
    non-empty, else the default inherited environment; a spawn failure propagates."""
    key = f"{STDIO}::StdioClient.__aenter__"
    prop = "C20"
    covers = ("return", "raise:FileNotFoundError")

    def setup(self, I):
        cmd, a, env = I.fresh("command"), I.fresh("args"), I.fresh("env")
        I.assume(z3.And(V.is_str(cmd), z3.Length(Val.s(cmd)) > 0, V.is_list(a), z3.Or(V.is_none(env), V.is_dict(env))))
        I.assume(z3.Implies(V.is_dict(env), Val.dsize(env) >= 0))
        for k in ("LOG_LEVEL", "LOGGING_LEVEL"):
            I.assume(z3.Implies(z3.And(V.is_dict(env), z3.Select(Val.dkeys(env), z3.StringVal(k))),
                                z3.And(Val.dsize(env) >= 1, V.is_str(z3.Select(Val.dvals(env), z3.StringVal(k))))))
        self.cmd, self.args_v, self.env = cmd, a, env
        p = I.new_object(klass(I, f"{PARAMS}::StdioParameters"),
                         {"command": cmd, "args": a, "env": env, pyd.EXTRA: V.VDict([])})
        # the client object is built by the real __init__
        ccd = klass(I, f"{STDIO}::StdioClient")
        self.client = I.instantiate(ccd, [p], {}, None)
        return [self.client], {}

    def post(self, I, result):
        sp = I.ghost.get("spawned", [])
        I.oblige(self.name("exactly_one_process_spawned"), z3.BoolVal(len(sp) == 1))
        if len(sp) != 1:
            return
        argv, env, kw = sp[0]
        want = z3.Concat(z3.Unit(self.cmd), Val.items(self.args_v))
        I.oblige(self.name("argv_is_command_followed_by_configured_args"),
                 z3.And(V.is_list(argv), Val.items(argv) == want),
                 watch={"command": self.cmd, "args": self.args_v, "argv": argv})
        dflt = I.ghost.get("default_env")
        use_cfg = z3.And(V.is_dict(self.env), Val.dsize(self.env) > 0)
        I.oblige(self.name("environment_is_configured_env_else_default"),
                 z3.If(use_cfg, env == self.env, env == dflt if dflt is not None else z3.BoolVal(False)),
                 watch={"env": self.env})
        proc, _ = I.get_field(self.client, "process")
        I.oblige(self.name("client_keeps_the_spawned_process_and_starts_reader_and_writer"),
                 z3.And(V.is_obj(proc), z3.BoolVal(len(I.ghost.get("started", [])) == 2)))

    def post_exc(self, I, e):
        I.oblige(self.name(f"a_command_that_cannot_be_started_makes_entering_raise[{e.cls_name}]"),
                 z3.BoolVal(e.cls_name == "FileNotFoundError" and not I.ghost.get("spawned")))


class C20(Check):
    prop = "C20"
    level = "proof"
    title = ("load_config proved against the configured entry for every valid document and each error class; both "
             "entry points proved to pass the loader's parameters unchanged into stdio_client (callee precondition) "
             "and to initialize on the returned streams; StdioClient.__aenter__ proved to spawn [command, *args] with "
             "the configured-or-default environment")
    design_ref = "section 7, C20"
    trusted = ["open()/json.load: file exists with some JSON document, is missing, or is not JSON (environment)",
               "'valid configuration' = the property's quantifier (command str, args list, env dict/None, timeout "
               "number or numeric string); float(str) is uninterpreted (float_ok/float_of)",
               "anyio.open_process records (argv, env) or raises OSError; task group / memory streams as environment",
               "entry points use load_config / stdio_client / send_initialize through their contracts; what an entry "
               "point does after reaching the handshake is outside this property",
               "pydantic List[str]/Dict[str,str] element validation is not modelled (nested values kept as given)"]

    def install(self, ctx):
        E.install_standard(ctx)
        pyd.install(ctx)
        for e in (FILE, CLIENT_CM, PROCESS, TASK_GROUP):
            ctx.env_class(e)
        ctx.extern_handlers.update({
            "builtins.open": x_open, "json.load": x_json_load, "anyio.run": x_anyio_run, "os.system": x_noop,
            "anyio.open_process": E.is_async(x_open_process), "anyio.create_task_group": x_create_task_group,
            "anyio.create_memory_object_stream": x_create_memory_object_stream,
            "shutil.which": x_which, "os.environ.get": x_environ_get, "logging.getLogger": x_opaque, "asyncio.create_task": x_opaque, "asyncio.wait_for": E.is_async(x_wait_for),
        })
        ctx.env_class(OPAQUE)
        # cleanup code calls methods of context managers held in a list: any value / any Exception
        def dyn(I, fv, args, kwargs, node, awaited):
            if I.choose_n(2, "dynamic_outcome") == 1:
                raise PyRaise(I.make_exc("AnyException", V.VStr("")), "AnyException")
            return I.fresh("dyn_result")
        ctx.dynamic_call_hook = dyn

    def modular(self):
        return {f"{MAINMOD}::find_default_config": FindDefaultModular(),
                f"{MAINMOD}::list_servers": RecordPathModular(f"{MAINMOD}::list_servers", True),
                f"{MAINMOD}::setup_logging": RecordPathModular(f"{MAINMOD}::setup_logging", False),
                f"{ENVMOD}::get_default_environment": DefaultEnvModular(),
                f"{CONFIG}::load_config": LoadConfigModular(),
                f"{STDIO}::stdio_client": StdioClientModular(),
                f"{INIT}::send_initialize": SendInitializeModular()}

    def contracts(self):
        cs = [LoadConfig(s) for s in ("valid", "missing_file", "invalid_json", "unknown_server")]
        cs += [SpawnContract(), DefaultEnvironment(), CliMain()]
        cs += [TestServerEntry(), RunCommandEntry()]
        return cs

    def loop_invariants(self):
        def inv(I, phase):
            out = []
            for v in ("server_streams", "server_info", "context_managers"):
                x = None
                for f in reversed(I.frames):
                    if v in f.vars:
                        x = f.vars[v]
                        break
                if x is not None:
                    out.append((f"C20.run_command.loop.{v}_is_a_list", V.is_list(x)))
            return out
        return {(f"{MANAGER}::run_command", 0): inv}

    def canaries(self):
        return [
            Canary("loader drops args", CONFIG, 'args=server_config.get("args", []),', "args=[],", "args_are_the_configured"),
            Canary("env not passed to open_process", STDIO, "                env=env,\n", "", "environment_is"),
            Canary("unknown server raises KeyError", CONFIG,
                   'server_config = config.get("mcpServers", {}).get(server_name)',
                   'server_config = config.get("mcpServers", {})[server_name]', "documented_exception"),
            Canary("runner passes the (params, timeout) pair", MANAGER,
                   "server_params, _timeout = await load_config(config_file, sname)",
                   "server_params = await load_config(config_file, sname)", "requires_StdioParameters"),
            Canary("command rewritten before the spawn", STDIO,
                   "                [self.server.command, *self.server.args],",
                   "                [self.server.command.lower(), *self.server.args],",
                   "argv_is_command"),
            Canary("CLI test passes the server name instead of the parameters", MAIN,
                   "async with stdio_client(server_params) as (read_stream, write_stream):",
                   "async with stdio_client(server_name) as (read_stream, write_stream):", "requires_StdioParameters"),
        ]

    def replay(self, name, model, rec):
        return None


    def bounded_stand_in(self, tier, undecided):
        from checks import native
        return native.stand_in(['C20.'], tier, undecided)

CHECK = C20()
