"""Native replay of send_message counter-models: the real coroutine from the tree under verification is
run over real anyio memory streams pre-loaded with the model's incoming history."""
from __future__ import annotations

import importlib
import types


def _msg(mid, method, result, error, params=None):
    class M:
        def __init__(self):
            self.id, self.method, self.result, self.error, self.params = mid, method, result, error, params
            self.jsonrpc = "2.0"

        def model_dump(self, **kw):
            return {k: v for k, v in dict(jsonrpc="2.0", id=self.id, method=self.method, params=self.params,
                                          result=self.result, error=self.error).items()}
    return M()


def _plain(v):
    if isinstance(v, dict) and ("$obj" in v or "$tuple" in v or "$fn" in v):
        return None
    return v


def run_send_message(incoming, req_id, timeout=0.4, **kw):
    import anyio
    sm = importlib.import_module("chuk_mcp.protocol.messages.send_message")
    out = {}

    async def main():
        s_in, r_in = anyio.create_memory_object_stream(100)
        s_out, r_out = anyio.create_memory_object_stream(100)
        for m in incoming:
            await s_in.send(m)
        try:
            out["result"] = await sm.send_message(r_in, s_out, "replay/method", None, timeout=timeout,
                                                  message_id=req_id, **kw)
            out["kind"] = "return"
        except BaseException as ex:       # noqa
            out["kind"] = f"raise:{type(ex).__name__}"
            out["exc"] = ex
        written = []
        try:
            while True:
                written.append(r_out.receive_nowait())
        except Exception:
            pass
        out["written"] = written
    anyio.run(main)
    return out


def is_match(m, req_id):
    return (not isinstance(m, list)) and getattr(m, "method", None) is None and \
        getattr(m, "id", None) is not None and getattr(m, "id", None) == req_id


def replay_c01(name, model, rec):
    req_id = model.get("req_id")
    if not isinstance(req_id, str) or not req_id:
        return None
    if model.get("last_is_list"):
        last = [1]
    else:
        last = _msg(_plain(model.get("last_id")), _plain(model.get("last_method")), _plain(model.get("last_result")),
                    _plain(model.get("last_error")))
    out = run_send_message([last], req_id)
    kind = out["kind"]
    desc = dict(req_id=req_id, incoming=[last if isinstance(last, list) else last.model_dump()])
    if kind == "return":
        ok = is_match(last, req_id)
        return dict(reproduced=not ok, input=desc, observed=f"returned {out['result']!r}",
                    required="return only with the payload of a response (no method) whose id equals the request id")
    if kind in ("raise:RetryableError", "raise:NonRetryableError"):
        ok = is_match(last, req_id) and getattr(last, "error", None) is not None
        return dict(reproduced=not ok, input=desc, observed=kind,
                    required="an error is raised only for a matching error response")
    allowed = {"raise:TimeoutError", "raise:EndOfStream", "raise:ClosedResourceError", "raise:BrokenResourceError",
               "raise:CancelledError"}
    return dict(reproduced=kind not in allowed, input=desc, observed=f"{kind}: {out.get('exc')!r}",
                required=f"one of {sorted(allowed)} or a matching response")


def replay_c18(name, model, rec):
    """cross-talk: a response with a foreign id handed to this caller; loss: a foreign response consumed and dropped"""
    req_id = model.get("req_id")
    if not isinstance(req_id, str) or not req_id:
        return None
    if "discarded" in name:
        cid = _plain(model.get("consumed_id"))
        foreign = _msg(cid, None, {"ok": True}, None)
        out = run_send_message([foreign], req_id, timeout=0.3)
        # the foreign response was consumed from the shared stream and is gone
        return dict(reproduced=out["kind"] != "return", input=dict(req_id=req_id, incoming=[foreign.model_dump()]),
                    observed=f"{out['kind']}; the response for id {cid!r} was consumed and dropped",
                    required="a response addressed to another waiter must not be discarded")
    last = _msg(_plain(model.get("last_id")), _plain(model.get("last_method")), {"ok": 1}, None)
    out = run_send_message([last], req_id, timeout=0.3)
    if out["kind"] == "return":
        return dict(reproduced=not is_match(last, req_id), input=dict(req_id=req_id, incoming=[last.model_dump()]),
                    observed=f"returned {out['result']!r}", required="only a response bearing the caller's own id")
    return dict(reproduced=False, observed=out["kind"])
