"""C10 - typed protocol models are lossless views of the wire and use wire names.

Decided from the class table and the call sites of the current source (no symbolic execution is needed: the
obligations are about declarations and about the arguments of dump calls):
  (a) every McpPydanticBase subclass keeps unknown members (effective extra == "allow"), every class that declares
      an alias can also be populated by field name, and no repo-side hook renames or drops members;
  (b) at every library-side model_dump() that feeds wire data:  by_alias=True  or  the static type of the receiver has
      no alias anywhere in its (transitive) fields.
Validator behaviour (pydantic's validate -> dump identity on spec-valid input) is assumed and audited (bounded).
"""
from __future__ import annotations

import ast
import os
from typing import Dict, List, Optional, Set, Tuple

from pyvc.check import Check, Canary, AuditResult
from pyvc.loader import Repo, Unsupported, ClassInfo

BASE = "src/chuk_mcp/protocol/mcp_pydantic_base.py"

# receivers whose static type cannot be inferred from annotations, with the reason they are harmless;
# a NEW uninferable site makes the check undecided.
UNTYPED_OK = {
    "src/chuk_mcp/protocol/messages/send_message.py::_await_response::msg": "JSON-RPC envelope (no aliases), logging only",
    "src/chuk_mcp/protocol/messages/send_message.py::_process_response::resp": "JSON-RPC envelope (no aliases)",
    "src/chuk_mcp/protocol/messages/json_rpc_message.py::model_dump::self._message": "JSON-RPC envelope wrapper, passes the caller's options on",
    "src/chuk_mcp/protocol/messages/json_rpc_message.py::model_dump::m": "JSON-RPC envelope wrapper, passes the caller's options on",
    "src/chuk_mcp/protocol/messages/json_rpc_message.py::model_dump_json::self": "JSON-RPC envelope wrapper, passes the caller's options on",
    "src/chuk_mcp/protocol/messages/json_rpc_message.py::model_dump::super()": "delegation to the base dump with the caller's options",
    "src/chuk_mcp/protocol/messages/json_rpc_message.py::model_dump_json::super()": "delegation to the base dump with the caller's options",
    "src/chuk_mcp/protocol/messages/sampling/send_messages.py::handle_create_message_request::result.content": "object returned by the caller-supplied LLM provider (content models carry no aliases)",
    "src/chuk_mcp/transports/http/transport.py::_send_message_internal::message": "JSON-RPC envelope from the write stream (no aliases)",
    "src/chuk_mcp/transports/sse/transport.py::_send_message_via_http::message": "JSON-RPC envelope from the write stream (no aliases)",
    "src/chuk_mcp/transports/http/transport.py::_outgoing_message_handler::message": "JSON-RPC envelope from the write stream (no aliases)",
    "src/chuk_mcp/transports/http/transport.py::_send_message_via_http::message": "JSON-RPC envelope from the write stream (no aliases)",
    "src/chuk_mcp/protocol/messages/completions/send_messages.py::send_completion_complete::ref": "Union of reference models / dict (hasattr-guarded)",
    "src/chuk_mcp/protocol/messages/completions/send_messages.py::send_completion_complete::argument": "ArgumentInfo or dict (hasattr-guarded)",
    "src/chuk_mcp/protocol/messages/sampling/send_messages.py::send_sampling_create_message::msg": "element of an annotated list: resolved through the parameter annotation",
}


class Model:
    def __init__(self, ci: ClassInfo):
        self.ci = ci
        self.name = ci.name
        self.aliases: Dict[str, str] = {}
        self.field_types: Dict[str, Set[str]] = {}
        self.config: Dict[str, object] = {}
        self.hooks: List[str] = []


def names_in(node) -> Set[str]:
    out = set()
    for n in ast.walk(node):
        if isinstance(n, ast.Name):
            out.add(n.id)
        elif isinstance(n, ast.Attribute):
            out.add(n.attr)
        elif isinstance(n, ast.Constant) and isinstance(n.value, str) and n.value.isidentifier():
            out.add(n.value)
    return out


def collect_models(repo: Repo) -> Dict[str, Model]:
    classes: List[ClassInfo] = []
    for rel in repo.all_package_files():
        mi = repo.load_path(rel)
        classes.extend(mi.classes.values())
    models: Dict[str, Model] = {}
    for ci in classes:
        name = ci.name
        if name in models:
            # a second class of the same name in another module is a different model: keep both
            name = f"{ci.name}@{ci.module.name}"
            if name in models:
                continue
        if "McpPydanticBase" in repo.base_names(ci) and name != "McpPydanticBase":
            m = Model(ci)
            for c in reversed(repo.mro(ci)):
                cfg = c.class_attrs.get("model_config")
                if isinstance(cfg, ast.Dict):
                    for k, v in zip(cfg.keys, cfg.values):
                        if isinstance(k, ast.Constant) and isinstance(v, ast.Constant):
                            m.config[k.value] = v.value
                elif isinstance(cfg, ast.Call):
                    for kw in cfg.keywords:
                        if isinstance(kw.value, ast.Constant):
                            m.config[kw.arg] = kw.value.value
                for fname, ann in c.annotations.items():
                    m.field_types[fname] = names_in(ann)
                    dv = c.class_attrs.get(fname)
                    if isinstance(dv, ast.Call) and getattr(dv.func, "id", getattr(dv.func, "attr", "")) == "Field":
                        for kw in dv.keywords:
                            if kw.arg == "alias" and isinstance(kw.value, ast.Constant):
                                m.aliases[fname] = kw.value.value
                for mn in ("model_post_init", "__post_init__", "model_dump", "model_dump_json", "model_validate"):
                    if mn in c.methods and c.name != "McpPydanticBase":
                        m.hooks.append(f"{c.name}.{mn}")
            models[name] = m
    return models


def base_config(repo: Repo) -> Dict[str, object]:
    """model_config of the pydantic-v2 half of McpPydanticBase"""
    mi = repo.load_path(BASE)
    ci = mi.classes.get("McpPydanticBase")
    cfg: Dict[str, object] = {}
    if ci is None:
        return cfg
    for n in ast.walk(ci.node):
        if isinstance(n, ast.Assign) and any(isinstance(t, ast.Name) and t.id == "model_config" for t in n.targets) \
                and isinstance(n.value, ast.Dict):
            for k, v in zip(n.value.keys, n.value.values):
                if isinstance(k, ast.Constant) and isinstance(v, ast.Constant):
                    cfg[k.value] = v.value
            break
    return cfg


def has_alias_star(models: Dict[str, Model]) -> Dict[str, bool]:
    res = {n: bool(m.aliases) for n, m in models.items()}
    changed = True
    while changed:
        changed = False
        for n, m in models.items():
            if res[n]:
                continue
            for tys in m.field_types.values():
                if any(res.get(t) for t in tys):
                    res[n] = True
                    changed = True
                    break
    return res


ALLOWED_HOOKS = {
    "JSONRPCError.model_post_init": "validates error.code / error.message, modifies nothing",
    "JSONRPCMessage.model_post_init": "validates id / result-xor-error, modifies nothing",
    "JSONRPCMessage.model_dump": "filters None-valued members only when exclude_none was asked for",
    "JSONRPCMessage.model_dump_json": "defaults exclude_none=True",
    "JSONRPCMessage.model_validate": "checks error.code / error.message presence on a copy, modifies nothing",
}


class DumpSite:
    def __init__(self, rel, func, node, recv_src, types, by_alias):
        self.rel, self.func, self.node, self.recv_src, self.types, self.by_alias = rel, func, node, recv_src, types, by_alias

    @property
    def key(self):
        return f"{self.rel}::{self.func}::{self.recv_src}"


def infer_types(repo: Repo, mi, cls: Optional[ClassInfo], fnode, recv: ast.AST, models) -> Optional[Set[str]]:
    """names of model classes the receiver expression may denote (None = not inferable)"""
    def from_ann(ann):
        if ann is None:
            return None
        ns = {n for n in names_in(ann) if n in models}
        # follow module-level aliases such as Content = Union[...]
        for n in names_in(ann):
            r = repo.resolve_import(mi, n)
            if r is not None and r[0] == "const":
                ns |= {x for x in names_in(r[1][1]) if x in models}
        return ns or None
    if isinstance(recv, ast.Name):
        if recv.id == "self" and cls is not None and cls.name in models:
            return {cls.name}
        a = fnode.args
        for p in a.posonlyargs + a.args + a.kwonlyargs:
            if p.arg == recv.id:
                t = from_ann(p.annotation)
                if t:
                    return t
        for n in ast.walk(fnode):
            if isinstance(n, ast.AnnAssign) and isinstance(n.target, ast.Name) and n.target.id == recv.id:
                t = from_ann(n.annotation)
                if t:
                    return t
            if isinstance(n, ast.Assign) and any(isinstance(t, ast.Name) and t.id == recv.id for t in n.targets):
                if isinstance(n.value, ast.Call):
                    f = n.value.func
                    nm = f.id if isinstance(f, ast.Name) else (f.attr if isinstance(f, ast.Attribute) else None)
                    if nm in models:
                        return {nm}
                    if nm == "model_validate" and isinstance(f, ast.Attribute) and isinstance(f.value, ast.Name) \
                            and f.value.id in models:
                        return {f.value.id}
            if isinstance(n, (ast.For, ast.comprehension)) and isinstance(n.target, ast.Name) and n.target.id == recv.id \
                    and isinstance(n.iter, ast.Name):
                for p in a.posonlyargs + a.args + a.kwonlyargs:
                    if p.arg == n.iter.id:
                        t = from_ann(p.annotation)
                        if t:
                            return t
        return None
    if isinstance(recv, ast.Attribute) and isinstance(recv.value, ast.Name) and recv.value.id == "self" and cls is not None:
        # self.x assigned in __init__ from an annotated parameter or a constructor call
        init = cls.methods.get("__init__")
        if recv.attr in cls.annotations:
            t = from_ann(cls.annotations[recv.attr])
            if t:
                return t
        if init is not None:
            for n in ast.walk(init.node):
                if isinstance(n, (ast.Assign, ast.AnnAssign)):
                    tgts = n.targets if isinstance(n, ast.Assign) else [n.target]
                    for t in tgts:
                        if isinstance(t, ast.Attribute) and isinstance(t.value, ast.Name) and t.value.id == "self" \
                                and t.attr == recv.attr and n.value is not None:
                            ns = set()
                            for x in ast.walk(n.value):
                                if isinstance(x, ast.Name):
                                    for p in init.node.args.args:
                                        if p.arg == x.id:
                                            ns |= (from_ann(p.annotation) or set())
                                    if x.id in models:
                                        ns.add(x.id)
                            if ns:
                                return ns
        return None
    if isinstance(recv, ast.Attribute):
        # a.b where a's type is known and b is an annotated field
        inner = infer_types(repo, mi, cls, fnode, recv.value, models)
        if inner:
            out = set()
            for t in inner:
                out |= {x for x in models[t].field_types.get(recv.attr, set()) if x in models}
            return out or None
    return None


def dump_sites(repo: Repo, models) -> List[DumpSite]:
    sites = []
    for rel in repo.all_package_files():
        if rel == BASE:
            continue
        mi = repo.load_path(rel)

        def visit_func(fnode, cls):
            for n in ast.walk(fnode):
                if isinstance(n, ast.Call) and isinstance(n.func, ast.Attribute) and n.func.attr in ("model_dump", "model_dump_json"):
                    recv = n.func.value
                    by_alias = any(kw.arg == "by_alias" and isinstance(kw.value, ast.Constant) and kw.value.value is True
                                   for kw in n.keywords)
                    passthrough = any(kw.arg is None for kw in n.keywords)
                    try:
                        src = ast.unparse(recv)
                    except Exception:
                        src = "?"
                    types = infer_types(repo, mi, cls, fnode, recv, models)
                    sites.append(DumpSite(rel, fnode.name, n, src, types, by_alias or passthrough))
        for node in mi.tree.body:
            if isinstance(node, (ast.FunctionDef, ast.AsyncFunctionDef)):
                visit_func(node, None)
            elif isinstance(node, ast.ClassDef):
                ci = mi.classes.get(node.name)
                for sub in node.body:
                    if isinstance(sub, (ast.FunctionDef, ast.AsyncFunctionDef)):
                        visit_func(sub, ci)
    return sites


class C10(Check):
    prop = "C10"
    level = "other"
    title = ("class-table invariants (extra='allow' effective on every model, aliases populatable by name, repo-side "
             "hooks on an allow-list) and call-site obligations (by_alias=True or receiver type free of aliases at "
             "every library-side dump) decided from the current AST; validator behaviour assumed + bounded audit")
    design_ref = "section 7, C10"
    trusted = ["pydantic: validate -> dump(by_alias=True, exclude_none=True) is the identity on spec-valid wire objects "
               "of a model whose effective config has extra='allow' and populate_by_name (assumed; audited per "
               "discovered model with a type-directed instance, bounded)",
               "static receiver types are inferred from annotations / constructor assignments; the listed untyped "
               "receivers are JSON-RPC envelopes (no aliases)"]

    def static_checks(self, repo: Repo):
        models = collect_models(repo)
        if len(models) < 20:
            raise Unsupported(f"model discovery found only {len(models)} models")
        base = base_config(repo)
        out = []
        bad_extra = sorted(n for n, m in models.items() if {**base, **m.config}.get("extra") != "allow")
        out.append(("C10.models.unknown_members_are_kept_on_every_model[extra=allow effective]", not bad_extra,
                    f"{len(models)} models; not 'allow': {bad_extra[:8]}"))
        # no model may switch on a configuration option that REWRITES member values on validation (a lossless view
        # keeps every spec-valid value exactly as the wire carried it)
        rewriting = ("str_strip_whitespace", "str_to_lower", "str_to_upper", "coerce_numbers_to_str", "ser_json_inf_nan",
                     "use_enum_values", "anystr_strip_whitespace", "anystr_lower", "anystr_upper")
        bad_rw = sorted(f"{n}.{k}" for n, m in models.items() for k in rewriting if {**base, **m.config}.get(k))
        out.append(("C10.models.no_value_rewriting_configuration_option", not bad_rw, f"options set: {bad_rw}"))
        bad_pop = sorted(n for n, m in models.items() if m.aliases and not {**base, **m.config}.get("populate_by_name"))
        out.append(("C10.models.aliased_models_can_be_populated_by_field_name", not bad_pop, f"missing: {bad_pop}"))
        hooks = sorted({h for m in models.values() for h in m.hooks})
        # post-init style hooks may validate; they are executed symbolically in C02 for the envelope classes; any
        # other new hook is reported for review
        new_hooks = [h for h in hooks if h not in ALLOWED_HOOKS and not h.endswith("__post_init__")]
        out.append(("C10.models.no_unreviewed_hook_can_rename_or_drop_members", not new_hooks, f"new hooks: {new_hooks}"))
        star = has_alias_star(models)
        sites = dump_sites(repo, models)
        unknown_new = []
        for s in sites:
            if s.types is None:
                if s.key not in UNTYPED_OK:
                    unknown_new.append(s.key)
                continue
            aliased = sorted(t for t in s.types if star.get(t))
            ok = s.by_alias or not aliased
            out.append((f"C10.dump_site.wire_names_used[{s.rel.split('/')[-1]}:{s.func}:{s.recv_src}]", ok,
                        f"receiver may be {sorted(s.types)}; aliased (transitively): {aliased}; by_alias={s.by_alias}"))
        if unknown_new:
            raise Unsupported(f"dump site(s) whose receiver type cannot be inferred: {unknown_new}")
        return out

    def contracts(self):
        return []

    def canaries(self):
        return [
            Canary("base config loses extra=allow", BASE, '                "extra": "allow",\n', "", "extra=allow"),
            Canary("tool_result_to_dict drops by_alias", "src/chuk_mcp/protocol/types/tools.py",
                   "return result.model_dump(exclude_none=True, by_alias=True)", "return result.model_dump(exclude_none=True)",
                   "tool_result_to_dict"),
            Canary("elicitation request built without wire names", "src/chuk_mcp/protocol/types/elicitation.py",
                   '"params": params.model_dump(exclude_none=True, by_alias=True),', '"params": params.model_dump(exclude_none=True),',
                   "elicitation"),
            Canary("one model set to extra=ignore", "src/chuk_mcp/protocol/types/info.py",
                   'model_config = {"extra": "allow"}\n\n\nclass ClientInfo', 'model_config = {"extra": "ignore"}\n\n\nclass ClientInfo',
                   "extra=allow"),
        ]

    def audits(self, tier):
        return [lambda: roundtrip_audit(tier)]

    def replay(self, name, model, rec):
        return None


def roundtrip_audit(tier):
    """validate -> dump(by_alias, exclude_none) identity on the REAL classes of the tree under verification: type-directed
    wire instances per model (nested models populated, one variant per arm of a union of model classes, every alias,
    unknown members incl. an underscore-prefixed one, explicit nulls nested inside object-valued members), under BOTH
    backends and in BOTH orders of the model list, each in a fresh process; a wire instance that is accepted in one order
    and rejected in the other shows validation depending on history.  Bounded; a failing instance is a real failing run."""
    import json as _json
    import subprocess
    import sys
    src = os.path.join(os.environ.get("VERIF_REPO", "/repo"), "src")
    verif = os.path.dirname(os.path.dirname(os.path.abspath(__file__)))
    results = {}
    for backend, force in (("pydantic", "0"), ("fallback", "1")):
        for order in ("forward", "reverse"):
            code = ("import sys, json; sys.path[:0] = [%r, %r]; from checks.C10 import roundtrip_native; "
                    "print('RESULT ' + json.dumps(roundtrip_native(%r), default=str))" % (src, verif, order))
            env = dict(os.environ, VERIF_REPO=os.environ.get("VERIF_REPO", "/repo"))
            if force == "1":
                env["MCP_FORCE_FALLBACK"] = "1"
            else:
                env.pop("MCP_FORCE_FALLBACK", None)
            try:
                out = subprocess.run([sys.executable, "-c", code], env=env, capture_output=True, text=True, timeout=300).stdout
                line = [l for l in out.splitlines() if l.startswith("RESULT ")]
                if line:
                    r = _json.loads(line[-1][7:])
                    results[("pydantic" if r.get("backend_is_pydantic") else "fallback", order)] = r
            except Exception:      # noqa: BLE001
                pass
    n = sum(x.get("cases", 0) for x in results.values())
    name = "validate->dump identity per model"
    for (backend, order), x in sorted(results.items()):
        f = x.get("failure")
        if f:
            return AuditResult(name, False, n, f"[{backend}] {f['model']}: member {f['member']!r} {f['sent']!r} became {f['got']!r}",
                               violation=dict(input=dict(backend=backend, model=f["model"], wire=f["wire"]),
                                              observed=f"after validate -> dump(by_alias=True, exclude_none=True): member {f['member']!r} is {f['got']!r}",
                                              required=f"member {f['member']!r} == {f['sent']!r} (typed models are lossless views of the wire)"))
    for backend in ("pydantic", "fallback"):
        a, b = results.get((backend, "forward")), results.get((backend, "reverse"))
        if a and b:
            for key, st in sorted(a.get("outcomes", {}).items()):
                if b.get("outcomes", {}).get(key, st) != st:
                    return AuditResult(name, False, n, f"[{backend}] {key}: {st} in forward order, {b['outcomes'][key]} in reverse order",
                                       violation=dict(input=dict(backend=backend, model=key, history="the same wire instance validated after "
                                                                 "the other models of the package, in forward vs reverse order (fresh process each)"),
                                                      observed=f"{st} in one order, {b['outcomes'][key]} in the other",
                                                      required="validation of a wire object does not depend on which models were validated before"))
    return AuditResult(name, True, n, bound="wire instances per model (main + one per further union arm), fresh process per backend and order: "
                       + ", ".join(f"{b}/{o}: {x.get('cases', 0)} accepted, {x.get('skipped', 0)} not generated or rejected" for (b, o), x in sorted(results.items())))


def _native_model_classes(repo):
    """every McpPydanticBase subclass of the package, by (module, name) - same-named classes of different modules are
    different models - imported from the tree under verification"""
    import importlib
    base = importlib.import_module("chuk_mcp.protocol.mcp_pydantic_base")
    out = []
    for rel in repo.all_package_files():
        if not rel.endswith(".py") or "/transports/" in rel or "/mcp_client/" in rel:
            continue
        mod = rel[len("src/"):-3].replace("/", ".")
        if mod.endswith(".__init__"):
            mod = mod[:-9]
        try:
            m = importlib.import_module(mod)
        except Exception:      # noqa: BLE001
            continue
        for name, cls in sorted(vars(m).items()):
            if isinstance(cls, type) and getattr(cls, "__module__", None) == mod and cls is not base.McpPydanticBase \
                    and issubclass(cls, base.McpPydanticBase):
                out.append((mod, name, cls))
    return base, out


def _fields_of(cls):
    return getattr(cls, "model_fields", None) or getattr(cls, "__model_fields__", None) or {}


_HINTS = {}


def _annotation_of(cls, fname, f):
    ann = getattr(f, "annotation", None)
    if ann is not None:
        return ann
    if cls not in _HINTS:
        import typing
        try:
            _HINTS[cls] = typing.get_type_hints(cls)
        except Exception:      # noqa: BLE001
            _HINTS[cls] = dict(getattr(cls, "__annotations__", {}))
    return _HINTS[cls].get(fname)


def _wire_instances(cls, limit=6):
    """type-directed wire instances of a model: the main one (first arm of every union) and, for every field whose type
    mentions several model classes (content-block unions), one variant per further arm (bounded by `limit`)"""
    import typing
    fields = _fields_of(cls)
    if not fields:
        return []

    def build(choice=None):
        wire = {}
        for fname, f in fields.items():
            key = getattr(f, "alias", None) or fname
            ann = _annotation_of(cls, fname, f)
            v = sample_for(ann, 0, choice if (choice and choice[0] == fname) else None)
            if v is NOSAMPLE:
                req = f.is_required() if hasattr(f, "is_required") else getattr(f, "required", False)
                if req:
                    return None
                continue
            if isinstance(v, dict) and "type" not in v:
                v = dict(v, nested={"explicit_null": None, "deeper": {"n": None, "k": [None, 1]}})
            wire[key] = v
        wire["x-unknown"] = {"a": [1, None], "n": None, "o": {"m": None}}
        wire["_vendorExt"] = "keep"
        return wire
    def build_only(keep):
        """required fields plus the optional fields in `keep` (models whose own validators forbid some combinations of
        optional members - e.g. result together with error - are still exercised member by member)"""
        wire = {}
        for fname, f in fields.items():
            req = f.is_required() if hasattr(f, "is_required") else getattr(f, "required", False)
            if not req and fname not in keep:
                continue
            v = sample_for(_annotation_of(cls, fname, f), 0)
            if v is NOSAMPLE:
                if req:
                    return None
                continue
            if isinstance(v, dict) and "type" not in v:
                v = dict(v, nested={"explicit_null": None, "deeper": {"n": None, "k": [None, 1]}})
            wire[getattr(f, "alias", None) or fname] = v
        wire["x-unknown"] = {"a": [1, None], "n": None, "o": {"m": None}}
        return wire
    out = []
    main = build()
    if main is not None:
        out.append(("main", main))
    for fname, f in list(fields.items())[:12]:
        req = f.is_required() if hasattr(f, "is_required") else getattr(f, "required", False)
        if not req:
            w = build_only({fname})
            if w is not None:
                out.append((f"required+{fname}", w))
    n = 0
    for fname, f in fields.items():
        arms = model_arms(_annotation_of(cls, fname, f))
        for k in range(1, len(arms)):
            if n >= limit:
                break
            w = build((fname, k))
            if w is not None:
                out.append((f"{fname}:arm{k}", w))
                n += 1
    return out


def roundtrip_native(order="forward"):
    import logging
    logging.disable(logging.CRITICAL)
    repo = Repo()
    base, classes = _native_model_classes(repo)
    is_pyd = bool(getattr(base, "PYDANTIC_AVAILABLE", False))
    n, skipped = 0, 0
    outcomes = {}
    seq = classes if order == "forward" else list(reversed(classes))
    for mod, name, cls in seq:
        for label, wire in _wire_instances(cls):
            key = f"{mod}.{name} [{label}]"
            try:
                obj = cls.model_validate(wire)
            except Exception as ex:      # noqa: BLE001
                outcomes[key] = f"rejected ({type(ex).__name__})"
                skipped += 1
                continue
            outcomes[key] = "accepted"
            n += 1
            back = obj.model_dump(by_alias=True, exclude_none=True)
            for k, v in wire.items():
                if k not in back or back[k] != v:
                    return dict(backend_is_pydantic=is_pyd, cases=n, skipped=skipped, outcomes=outcomes,
                                failure=dict(model=f"{key} ({order} order)", member=k, sent=v, got=back.get(k, "<absent>"), wire=wire))
    return dict(backend_is_pydantic=is_pyd, cases=n, skipped=skipped, outcomes=outcomes, failure=None)


NOSAMPLE = object()


def _is_model(t):
    return isinstance(t, type) and hasattr(t, "model_validate") and bool(_fields_of(t))


def model_arms(ann):
    """the model classes mentioned in an annotation (through Optional / Union / List / Annotated), in order"""
    import typing
    out = []

    def walk(a, depth=0):
        if depth > 4 or a is None:
            return
        if _is_model(a):
            if a not in out:
                out.append(a)
            return
        for x in typing.get_args(a):
            walk(x, depth + 1)
    walk(ann)
    return out


def sample_for(ann, depth=0, choice=None):
    """a JSON value of the annotated type; `choice` = (field, k) selects the k-th model class mentioned in the annotation
    instead of the first one"""
    import typing
    origin = typing.get_origin(ann)
    args = typing.get_args(ann)
    if ann is str:
        return "s"
    if ann is int:
        return 3
    if ann is float:
        return 0.5
    if ann is bool:
        return True
    if ann is typing.Any:
        return {"any": None}
    if _is_model(ann):
        if depth > 2:
            return NOSAMPLE
        wire = {}
        for fname, f in _fields_of(ann).items():
            key = getattr(f, "alias", None) or fname
            v = sample_for(_annotation_of(ann, fname, f), depth + 1)
            if v is NOSAMPLE:
                req = f.is_required() if hasattr(f, "is_required") else getattr(f, "required", False)
                if req:
                    return NOSAMPLE
                continue
            wire[key] = v
        return wire
    if origin is typing.Literal:
        return args[0]
    if origin is typing.Union or str(origin) == "types.UnionType":
        arms = [a for a in args if a is not type(None)]
        if choice is not None:
            wanted = model_arms(ann)
            if choice[1] < len(wanted):
                target = wanted[choice[1]]
                for a in arms:
                    if a is target or target in model_arms(a):
                        v = sample_for(a, depth, choice)
                        if v is not NOSAMPLE:
                            return v
        for a in arms:
            v = sample_for(a, depth)
            if v is not NOSAMPLE:
                return v
        return NOSAMPLE
    if origin in (dict, typing.Dict):
        return {"k": "v"}
    if origin in (list, typing.List):
        v = sample_for(args[0], depth, choice) if args else "x"
        return [v] if v is not NOSAMPLE else []
    if getattr(typing, "Annotated", None) is not None and origin is typing.Annotated:
        return sample_for(args[0], depth, choice)
    if ann is dict:
        return {"k": 1}
    if ann is list:
        return [1]
    return NOSAMPLE


CHECK = C10()
