"""C08 - server dispatch: one response per request, none per notification, never a crash."""
from __future__ import annotations

import z3

from pyvc import vals as V
from pyvc.vals import Val
from pyvc import prelude as P
from pyvc import envs as E
from pyvc.core import PyRaise
from pyvc.check import Check, Canary
from pyvc.verify import Contract
from checks import server as S
from checks.server import PH, SRV, Resp, pair

FASTJSON = "src/chuk_mcp/protocol/fast_json.py"


class PureHavoc(Contract):
    """Assumed contract for a helper whose result does not matter to the property: returns any value or raises
    any Exception, and writes nothing the obligations read (purity is visible in its text, not verified)."""

    def __init__(self, key):
        self.key = key

    def apply(self, I, args, kwargs, node):
        if I.choose_n(2, "helper_outcome") == 1:
            raise PyRaise(I.make_exc("AnyException", V.VStr("")), "AnyException")
        return I.fresh("helper_result")


class HandleMessage(Contract):
    key = f"{PH}::ProtocolHandler.handle_message"
    prop = "C08"

    def __init__(self, kind, with_session):
        self.kind, self.with_session = kind, with_session

    def name(self, clause):
        return f"C08.handle_message.{clause}[{self.kind}]"

    def setup(self, I):
        I.dynamic_role = "handler"
        self.ph = S.make_protocol_handler(I)
        self.msg, self.mid, self.method, self.params = S.make_message(I, self.kind)
        sid = V.NONE
        if self.with_session:
            sid = I.fresh("session_id")
            I.assume(V.is_str(sid))
        return [self.ph, self.msg, sid], {}

    def post(self, I, result):
        ok, first, second = pair(result)
        watch = {"id": self.mid, "method": self.method, "params": self.params}
        I.oblige(self.name("returns_a_pair"), ok, watch=watch)
        handlers = I.ph_parts["handlers"]
        registered = z3.Select(Val.dkeys(handlers), Val.s(self.method))
        if self.kind == "notification":
            I.oblige(self.name("notification_gets_no_response"), V.is_none(first), watch=watch)
            return
        r = Resp(I, first)
        I.oblige(self.name("request_gets_exactly_one_response_with_its_id"),
                 z3.And(r.has_id(self.mid), r.one_of_result_error()), watch=watch)
        nonempty = z3.Length(Val.s(self.method)) > 0
        I.oblige(self.name("unregistered_method_gets_method_not_found"),
                 z3.Implies(z3.And(nonempty, z3.Not(registered)), r.is_error(-32601)), watch=watch)
        if I.ghost.get("callee_raised") or I.ghost.get("callee_nonsense"):
            I.oblige(self.name("failing_handler_gets_internal_error"), r.is_error(-32603), watch=watch)
        if I.ghost.get("handler_response") is not None and not I.ghost.get("callee_raised"):
            I.oblige(self.name("handler_response_is_passed_on_unchanged"), first == I.ghost["handler_response"])

    def post_exc(self, I, e):
        I.oblige(self.name(f"dispatch_never_raises[{e.cls_name.split('.')[-1]}]"), z3.BoolVal(False),
                 watch={"id": self.mid, "method": self.method, "params": self.params})


class CoreHandler(Contract):
    """The handlers the library registers itself satisfy the handler contract H for requests."""
    prop = "C08"

    def __init__(self, fn):
        self.key = f"{PH}::ProtocolHandler.{fn}"
        self.fn = fn

    def setup(self, I):
        self.ph = S.make_protocol_handler(I)
        kind = "notification" if self.fn == "_handle_initialized" else "request"
        self.msg, self.mid, self.method, self.params = S.make_message(I, kind)
        sid = I.fresh("session_id")
        I.assume(z3.Or(V.is_none(sid), V.is_str(sid)))
        self.kind = kind
        return [self.ph, self.msg, sid], {}

    def post(self, I, result):
        ok, first, second = pair(result)
        I.oblige(self.name("satisfies_handler_contract_returns_a_pair"), ok)
        if self.kind == "notification":
            I.oblige(self.name("notification_handler_returns_no_response"), V.is_none(first))
        else:
            r = Resp(I, first)
            I.oblige(self.name("response_carries_the_request_id_and_a_result"),
                     z3.And(r.has_id(self.mid), r.is_result()), watch={"id": self.mid, "params": self.params})

    def post_exc(self, I, e):
        # H allows any Exception (the dispatcher turns it into -32603); anything else would escape dispatch
        cd = I.ctx.cls_named(e.cls_name) if e.cls_name in I.ctx.class_by_name else None
        is_exc = cd is not None and (cd.name in ("Exception", "AnyException") or "Exception" in cd.bases)
        I.oblige(self.name(f"raises_only_exception_subclasses[{e.cls_name.split('.')[-1]}]"), z3.BoolVal(is_exc))
        if self.fn == "_handle_ping":
            I.oblige(self.name("ping_never_fails_for_a_request"), z3.BoolVal(False))


class ServerHandler(Contract):
    """MCPServer's tool/resource handlers: H for requests, -32602 for names that are not registered,
    -32603 when the user's callable raises."""
    prop = "C08"

    def __init__(self, fn):
        self.key = f"{SRV}::MCPServer.{fn}"
        self.fn = fn

    def setup(self, I):
        I.dynamic_role = "tool"
        self.ph = S.make_protocol_handler(I)
        reg = I.fresh("registry")
        I.assume(z3.And(V.is_dict(reg), Val.dsize(reg) >= 0))
        self.reg = reg
        is_tools = "tools" in self.fn
        self.entry_keys = ("handler", "schema", "description") if is_tools else \
            ("handler", "name", "description", "mime_type")
        other = I.fresh("other_registry")
        I.assume(z3.And(V.is_dict(other), Val.dsize(other) >= 0))
        srv = I.new_object(S.klass(I, f"{SRV}::MCPServer"),
                           {"protocol_handler": self.ph, "_tools": reg if is_tools else other,
                            "_resources": other if is_tools else reg,
                            "server_info": I.ph_parts["server_info"], "capabilities": I.ph_parts["capabilities"]})
        I.dict_entry_hook = self.entry_wf
        self.msg, self.mid, self.method, self.params = S.make_message(I, "request")
        sid = I.fresh("session_id")
        I.assume(z3.Or(V.is_none(sid), V.is_str(sid)))
        return [srv, self.msg, sid], {}

    def entry_wf(self, I, D, k):
        """representation invariant of the registries (established by register_tool / register_resource):
        every entry is a dict with the expected members and a callable handler"""
        if not z3.eq(z3.simplify(D), z3.simplify(self.reg)):
            return
        e = z3.Select(Val.dvals(D), k)
        conds = [V.is_dict(e)] + [z3.Select(Val.dkeys(e), z3.StringVal(n)) for n in self.entry_keys]
        h = z3.Select(Val.dvals(e), z3.StringVal("handler"))
        conds.append(z3.Or(V.is_fn(h), V.is_obj(h)))
        I.assume(z3.Implies(z3.Select(Val.dkeys(D), k), z3.And(conds)))

    def key_param(self):
        return "name" if "tools" in self.fn else "uri"

    def post(self, I, result):
        ok, first, second = pair(result)
        r = Resp(I, first)
        watch = {"id": self.mid, "params": self.params}
        I.oblige(self.name("returns_one_response_with_the_request_id"),
                 z3.And(ok, r.has_id(self.mid), r.one_of_result_error()), watch=watch)
        if self.fn in ("_handle_tools_call", "_handle_resources_read"):
            kp = z3.StringVal(self.key_param())
            p = self.params
            nm = z3.If(z3.And(V.is_dict(p), z3.Select(Val.dkeys(p), kp)), z3.Select(Val.dvals(p), kp), V.NONE)
            unknown = z3.Or(z3.Not(V.is_str(nm)), z3.Not(z3.Select(Val.dkeys(self.reg), Val.s(nm))))
            I.oblige(self.name("unknown_name_gets_invalid_params"), z3.Implies(unknown, r.is_error(-32602)), watch=watch)
            if I.ghost.get("callee_raised"):
                I.oblige(self.name("failing_user_callable_gets_internal_error"), r.is_error(-32603), watch=watch)
            I.oblige(self.name("error_codes_are_only_the_documented_ones"),
                     z3.Implies(r.is_error(), z3.Or(r.is_error(-32602), r.is_error(-32603))), watch=watch)
        else:
            I.oblige(self.name("listing_returns_a_result"), r.is_result(), watch=watch)

    def post_exc(self, I, e):
        cd = I.ctx.cls_named(e.cls_name) if e.cls_name in I.ctx.class_by_name else None
        is_exc = cd is not None and (cd.name in ("Exception", "AnyException") or "Exception" in cd.bases)
        I.oblige(self.name(f"raises_only_exception_subclasses[{e.cls_name.split('.')[-1]}]"), z3.BoolVal(is_exc))
        # the only failures that may escape to the dispatcher are caused by malformed params (wrong JSON shapes):
        p = self.params
        kp = z3.StringVal(self.key_param())
        nm = z3.If(z3.And(V.is_dict(p), z3.Select(Val.dkeys(p), kp)), z3.Select(Val.dvals(p), kp), V.NONE)
        wellformed = z3.And(z3.Or(V.is_none(p), V.is_dict(p)), z3.Or(V.is_none(nm), V.is_str(nm), V.is_int(nm),
                                                                     V.is_bool(nm)))
        I.oblige(self.name("well_shaped_params_never_make_the_handler_raise"), z3.Not(wellformed),
                 watch={"id": self.mid, "params": self.params})


class C08(Check):
    prop = "C08"
    level = "proof"
    title = ("handle_message proved against the handler contract H for every registry, message and handler "
             "behaviour; the library's own handlers (core + MCPServer) proved to satisfy H with the documented codes")
    design_ref = "section 7, C08"
    trusted = ["handler contract H is the element invariant of the registry (user handlers are assumed to satisfy it; "
               "every handler the library registers is verified against it)",
               "registries hold well-formed entries (established by register_tool/register_resource: assumed here)",
               "MCPServer._format_content and fast_json.dumps: havoc contract (any value or any Exception, no "
               "effect on server state)",
               "pydantic per pyvc.pyd; cancellation (BaseException) is outside 'never raises'"]

    def install(self, ctx):
        S.install(ctx)

    def modular(self):
        return {f"{SRV}::MCPServer._format_content": PureHavoc(f"{SRV}::MCPServer._format_content"),
                f"{FASTJSON}::dumps": PureHavoc(f"{FASTJSON}::dumps")}

    def contracts(self):
        cs = [HandleMessage("request", True), HandleMessage("request", False), HandleMessage("notification", True)]
        cs += [CoreHandler("_handle_ping"), CoreHandler("_handle_initialized"), CoreHandler("_handle_initialize")]
        cs += [ServerHandler(f) for f in ("_handle_tools_list", "_handle_tools_call", "_handle_resources_list",
                                          "_handle_resources_read")]
        return cs

    def loop_invariants(self):
        def list_inv(var, fn):
            def inv(I, phase):
                v = I.frame.vars.get(var)
                return [(f"C08.MCPServer.{fn}.loop.accumulator_is_a_list", V.is_list(v))]
            return inv
        return {(f"{SRV}::MCPServer._handle_tools_list", 0): list_inv("tools_list", "_handle_tools_list"),
                (f"{SRV}::MCPServer._handle_resources_list", 0): list_inv("resources_list", "_handle_resources_list")}

    def canaries(self):
        return [
            Canary("try/except around the handler call removed", PH,
                   "        try:\n            response, new_session_id = await handler(message, session_id)\n"
                   "            if is_notification:\n                return None, new_session_id\n"
                   "            return response, new_session_id\n        except Exception as e:",
                   "        response, new_session_id = await handler(message, session_id)\n"
                   "        if is_notification:\n            return None, new_session_id\n"
                   "        return response, new_session_id\n        try:\n            pass\n        except Exception as e:",
                   "never_raises"),
            Canary("unknown method with an id returns None", PH,
                   "            return self.create_error_response(\n                msg_id, -32601, f\"Method not found: {method}\"\n            ), None",
                   "            return None, None", "C08."),
            Canary("notification answered", PH,
                   "            if is_notification:\n                return None, new_session_id\n", "", "notification_gets_no"),
            Canary("-32601 and -32603 swapped", PH, "msg_id, -32601, f\"Method not found", "msg_id, -32603, f\"Method not found",
                   "method_not_found"),
            Canary("falsy ids treated as notifications on handler failure", PH,
                   "            if is_notification:\n                return None, None\n            # Get ID if available (not on notifications)\n            msg_id = getattr(message, \"id\", None)\n            return self.create_error_response(\n                msg_id, -32603",
                   "            msg_id = getattr(message, \"id\", None)\n            if not msg_id:\n                return None, None\n            return self.create_error_response(\n                msg_id, -32603",
                   "C08."),
            Canary("tool KeyError reported as unknown tool", SRV,
                   "        except Exception as e:\n            logging.error(f\"Tool execution error",
                   "        except KeyError:\n            return self.protocol_handler.create_error_response(\n"
                   "                message.id, -32602, f\"Unknown tool: {tool_name}\"\n            ), None\n"
                   "        except Exception as e:\n            logging.error(f\"Tool execution error", "C08."),
        ]

    def replay(self, name, model, rec):
        from checks import replay_server
        return replay_server.replay_c08(name, model, rec)


CHECK = C08()
