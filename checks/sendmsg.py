"""Shared contract machinery for send_message / _await_response (C01, C14, C18).

Everything is inlined into send_message (the cancellation closure is part of the same function text);
the receive loop of _await_response carries the invariant.  Oracles are taken from the property texts
(DESIGN.md Appendix A).
"""
from __future__ import annotations

import z3

from pyvc import vals as V
from pyvc.vals import Val
from pyvc import prelude as P
from pyvc import envs as E
from pyvc import pyd
from pyvc.verify import Contract
from pyvc.core import PyRaise

SEND = "src/chuk_mcp/protocol/messages/send_message.py"
SEND_KEY = f"{SEND}::send_message"
AWAIT_KEY = f"{SEND}::_await_response"
RETRYABLE_CLS = "chuk_mcp.protocol.types.errors.RetryableError"
NONRETRYABLE_CLS = "chuk_mcp.protocol.types.errors.NonRetryableError"
LIB_CANCELLED = "chuk_mcp.protocol.messages.send_message.CancelledError"

dump_of = z3.Function("dump_of", Val, Val)


class MessageEnv(E.EnvClass):
    """An incoming JSON-RPC message object as the transports deliver it: data attributes in the heap,
    model_dump() a function of the object."""
    name = "Message"

    def __init__(self):
        self.methods = {"model_dump": lambda I, recv, a, k: dump_of(recv)}


MESSAGE = MessageEnv()

H = {}          # entry-heap accessors are built per path in Setup


class View:
    """Reads message attributes through the ENTRY heap (messages are never written by the function)."""

    def __init__(self, I):
        self.I = I
        self.h = {n: I.ctx.initial_heap(n) for n in ("method", "id", "params", "result", "error")}
        self.msg_cid = I.ctx.env_class(MESSAGE).cid

    def attr(self, m, name):
        """getattr(m, name, None) on the entry heap"""
        h, a = self.h[name]
        o = Val.oid(m)
        return z3.If(z3.And(V.is_obj(m), z3.Select(a, o)), z3.Select(h, o), V.NONE)

    def well_typed(self, m):
        """type invariant of one delivered item: a batch list, or a message object created before the call
        whose id is None/int/str, method None/str, params None/dict, error None/dict with an int code"""
        o = Val.oid(m)
        mid, meth, par, err = (self.attr(m, n) for n in ("id", "method", "params", "error"))
        code = z3.Select(Val.dvals(err), z3.StringVal("code"))
        has_code = z3.Select(Val.dkeys(err), z3.StringVal("code"))
        # dict well-formedness, ground-instantiated at the one key the code looks up in params
        pt = z3.StringVal("progressToken")
        par_wf = z3.Implies(V.is_dict(par), z3.And(Val.dsize(par) >= 0,
                                                   z3.Implies(z3.Select(Val.dkeys(par), pt), Val.dsize(par) >= 1)))
        obj_ok = z3.And(V.is_obj(m), o > 0, o < 1_000_000, z3.Select(self.I.ctx.cls0, o) == self.msg_cid, par_wf,
                        z3.Or(V.is_none(mid), V.is_int(mid), V.is_str(mid)),
                        z3.Or(V.is_none(meth), V.is_str(meth)),
                        z3.Or(V.is_none(par), V.is_dict(par)),
                        z3.Or(V.is_none(err), z3.And(V.is_dict(err), z3.Implies(has_code, V.is_int(code)))))
        return z3.Or(V.is_list(m), obj_ok)

    # ---- oracles from the property text
    def is_response(self, m):
        """'a message without a method' (and not a batch)"""
        return z3.And(z3.Not(V.is_list(m)), V.is_obj(m), V.is_none(self.attr(m, "method")),
                      z3.Not(V.is_none(self.attr(m, "id"))))

    def is_match(self, m, req_id):
        """'... whose id equals the id it sent'"""
        return z3.And(self.is_response(m), V.py_eq(self.attr(m, "id"), req_id))

    def payload(self, m):
        r = self.attr(m, "result")
        return z3.If(V.is_none(r), dump_of(m), r)

    def is_progress_for(self, m, token):
        p = self.attr(m, "params")
        tok = z3.Select(Val.dvals(p), z3.StringVal("progressToken"))
        has = z3.Select(Val.dkeys(p), z3.StringVal("progressToken"))
        return z3.And(V.is_obj(m), self.attr(m, "method") == V.VStr("notifications/progress"),
                      V.is_dict(p), has, V.py_eq(tok, token))

    def progress_args(self, m):
        p = self.attr(m, "params")

        def get(k, dflt):
            return z3.If(z3.Select(Val.dkeys(p), z3.StringVal(k)), z3.Select(Val.dvals(p), z3.StringVal(k)), dflt)
        return V.VTuple([get("progress", V.VInt(0)), get("total", V.NONE), get("message", V.NONE)])


class TrackingReadStream(E.ReadStreamEnv):
    """ReadStream whose consume hook (a) instantiates the type invariant of the delivered item and
    (b) keeps the ghost 'expected progress calls' in lock-step (C14)."""
    name = "TrackingReadStream"


class TokenEnv:
    """Rely for the cancellation token: at every checkpoint another task may cancel it (never un-cancel).
    Ghost: t_cancel = the virtual time at which it was first seen flipped."""


def install(ctx):
    E.install_standard(ctx)
    pyd.install(ctx)
    ctx.env_class(MESSAGE)


class SendMessageSetup(Contract):
    """Builds the symbolic call  send_message(rs, ws, method, params, timeout=..., message_id=...,
    cancellation_token=..., progress_callback=...)  for one configuration."""
    key = SEND_KEY
    zero_time_sends = False
    concurrent_receivers = False          # C18 rely: other waiters may consume items between my receives

    def __init__(self, with_token=False, with_callback=False, with_params="any", id_mode="given"):
        self.with_token = with_token
        self.with_callback = with_callback
        self.with_params = with_params
        self.id_mode = id_mode

    def cfg(self):
        return f"token={int(self.with_token)},cb={int(self.with_callback)},id={self.id_mode}"

    def setup(self, I):
        I.sm = self
        self.view = View(I)
        env = TrackingReadStream()
        env.on_consume = self.on_consume
        if self.concurrent_receivers:
            env.pre_receive = self.others_consume
        self.rs = E.make_read_stream(I, "rs", env)
        wenv = E.WriteStreamEnv(zero_time=self.zero_time_sends)
        wenv.name = "WriteStreamZ" if self.zero_time_sends else "WriteStream"
        self.ws = E.make_write_stream(I, "ws", wenv)
        self.incoming = Val.items(E.gfield(I, self.rs, "incoming"))
        self.method = I.fresh("method")
        I.assume(V.is_str(self.method))
        self.params = I.fresh("params")
        I.assume(z3.Or(V.is_none(self.params), V.is_dict(self.params)))
        I.assume(z3.Implies(V.is_dict(self.params), Val.dsize(self.params) >= 0))
        # type invariant of the input: params._meta, if present, is an object (MCP schema)
        meta = z3.Select(Val.dvals(self.params), z3.StringVal("_meta"))
        I.assume(z3.Implies(z3.And(V.is_dict(self.params), z3.Select(Val.dkeys(self.params), z3.StringVal("_meta"))),
                            V.is_dict(meta)))
        self.timeout = I.fresh_real("timeout")
        I.assume(self.timeout > 0)
        kwargs = {"timeout": V.VReal(self.timeout)}
        if self.id_mode == "given":
            mid = I.fresh("message_id")
            I.assume(z3.And(V.is_str(mid), z3.Length(Val.s(mid)) > 0))
            kwargs["message_id"] = mid
            self.given_id = mid
        else:
            self.given_id = None
        self.token = None
        if self.with_token:
            cd = I.ctx.repo_class(I.ctx.repo.klass(f"{SEND}::CancellationToken"))
            c0 = I.fresh_bool("cancelled0")
            self.cancelled0 = c0
            # ghost t_cancel (virtual time of the flip) lives on the token object so loop havoc covers it
            self.token = I.new_object(cd, {"_cancelled": V.VBool(c0), "_callbacks": V.VList([]),
                                           "t_cancel": V.VReal(I.st.now)})
            kwargs["cancellation_token"] = self.token
            I.checkpoint_hooks = [self.token_rely]
        self.cb = None
        if self.with_callback:
            self.cb = E.make_callback(I)
            I.set_attr(self.cb, "expected", V.VList([]), record=False)     # ghost: expected progress calls
            kwargs["progress_callback"] = self.cb
        self.t_entry = I.st.now
        self.kwargs = kwargs
        return [self.rs, self.ws, self.method, self.params], kwargs

    # ---- environment hooks
    def on_consume(self, I, recv, m):
        I.assume(self.view.well_typed(m))
        I.ghost["consumed_this_iteration"] = m
        tok = self.progress_token(I)
        if tok is not None:
            exp = Val.items(E.gfield(I, self.cb, "expected"))
            hit = self.view.is_progress_for(m, tok)
            I.set_attr(self.cb, "expected",
                       V.VList(z3.If(hit, z3.Concat(exp, z3.Unit(self.view.progress_args(m))), exp)))

    def others_consume(self, I, recv):
        """rely (C18): between two of my receives other waiters on the same stream may have consumed items"""
        pos = Val.i(E.gfield(I, recv, "pos"))
        skip = I.fresh_int("skipped_by_others")
        I.assume(skip >= 0)
        I.set_attr(recv, "pos", V.VInt(pos + skip))

    def progress_token(self, I):
        """the progress token the call put into params._meta (None if no callback)"""
        if not self.with_callback:
            return None
        us = getattr(I, "uuids", None)
        if not us:
            return None
        return V.VStr(us[0])

    def token_rely(self, I):
        """another task may cancel the token while this one is suspended (never un-cancel); the flip
        happened at some instant of the suspension"""
        cur, _ = I.get_field(self.token, "_cancelled")
        flip = I.fresh_bool("flip")
        was = V.truthy(cur)
        I.set_attr(self.token, "_cancelled", V.VBool(z3.Or(was, flip)))
        tc = I.fresh_real("t_flip")
        I.assume(z3.And(tc >= getattr(I, "prev_now", I.st.now), tc <= I.st.now))
        old, _ = I.get_field(self.token, "t_cancel")
        I.set_attr(self.token, "t_cancel", z3.If(z3.And(z3.Not(was), flip), V.VReal(tc), old))

    # ---- helpers for postconditions
    def req_id(self, I):
        if self.given_id is not None:
            return self.given_id
        us = getattr(I, "uuids", None)
        idx = 1 if self.with_callback else 0
        if not us or len(us) <= idx:
            # no id was given and none was drawn from uuid4: whatever the code uses instead is not known to be unique
            # among the requests in flight (the uniqueness of generated ids is the uuid4 freshness assumption)
            if not I.ghost.get("no_uuid_reported"):
                I.ghost["no_uuid_reported"] = True
                I.oblige(self.name("auto_generated_request_id_is_a_fresh_uuid4"), z3.BoolVal(False))
            if I.ghost.get("substitute_req_id") is None:
                I.ghost["substitute_req_id"] = I.fresh("some_request_id")
            return I.ghost["substitute_req_id"]
        return V.VStr(us[idx])

    def written(self, I):
        return Val.items(E.gfield(I, self.ws, "written"))

    def attempted(self, I):
        return Val.items(E.gfield(I, self.ws, "attempted"))

    def pos(self, I):
        return Val.i(E.gfield(I, self.rs, "pos"))

    def token_cancelled(self, I):
        c, _ = I.get_field(self.token, "_cancelled")
        return V.truthy(c)

    def t_cancel(self, I):
        t, _ = I.get_field(self.token, "t_cancel")
        return Val.r(t)


def await_loop_invariant(prefix="C01"):
    """Invariant of `while True` in _await_response (ordinal 0), used when inlined into send_message."""

    def inv(I, phase):
        c = I.sm
        view = c.view
        req_id = c.req_id(I)
        pos = c.pos(I)
        inc = c.incoming
        k = z3.Int("k!inv")
        name = f"{prefix}._await_response.loop"
        clauses = []
        if phase == "entry":
            I.ghost["written_at_loop_entry"] = c.written(I)
            I.ghost["attempted_at_loop_entry"] = c.attempted(I)
        if phase == "head":
            I.ghost["consumed_this_iteration"] = None
            I.ghost["checkpoints_at_head"] = I.ghost.get("checkpoints", 0)
        if not c.concurrent_receivers:
            # no consumed message is a match (otherwise the loop would have returned)
            clauses.append((f"{name}.no_consumed_message_matches",
                            z3.ForAll([k], z3.Implies(z3.And(k >= 0, k < pos),
                                                      z3.Not(view.is_match(inc[k], req_id))))))
        clauses.append((f"{name}.position_in_bounds", z3.And(pos >= 0, pos <= z3.Length(inc))))
        # exactly the request has been written; nothing else was even attempted
        w = c.written(I)
        clauses.append((f"{name}.only_the_request_written",
                        z3.And(z3.Length(w) == 1, w == I.ghost["written_at_loop_entry"],
                               c.attempted(I) == I.ghost["attempted_at_loop_entry"])))
        extra = getattr(c, "extra_invariant", None)
        if extra is not None:
            clauses.extend(extra(I, phase, name))
        return clauses
    return inv


# =========================================================================== modular use at call sites
JSONRPC = "src/chuk_mcp/protocol/messages/json_rpc_message.py"
PERMANENT_CODES = (-32700, -32600, -32601, -32602, -32003, -32005, -32006, -32007, -32008, -32000)


class SendMessageModular(Contract):
    """Call-site form of send_message's contract (what C01/C07/C14 prove about it):
      requires : read_stream / write_stream are stream objects, method is a str, params None or a dict
      outcomes : (a) returns the payload r of the first matching response; exactly one request
                     {id fresh-or-given, method, params} appended to write_stream.written;
                 (b) raises RetryableError / NonRetryableError carrying an int code classified by the
                     documented permanent set, request written;
                 (c) raises TimeoutError, request written;
                 (d) raises EndOfStream / ClosedResourceError (read side), request written;
                 (e) raises BrokenResourceError / ClosedResourceError (write side), nothing written;
                 (f) with a cancellation token: raises the library CancelledError.
    Time: every outcome returns within `timeout` of the wait (not used by the callers verified so far)."""
    key = SEND_KEY

    def __init__(self, outcomes=("return", "retryable", "nonretryable", "timeout", "read_closed", "write_failed")):
        self.outcomes = outcomes

    def apply(self, I, args, kwargs, node):
        names = ["read_stream", "write_stream", "method", "params"]
        b = dict(zip(names, args))
        b.update(kwargs)
        rs, ws = b.get("read_stream"), b.get("write_stream")
        method, params = b.get("method"), b.get("params", V.NONE)
        I.ghost["sent_params"] = params
        pfx = getattr(I, "callsite_prefix", "callsite")
        I.oblige(f"{pfx}.send_message.requires_method_is_str@{getattr(node, 'lineno', 0)}", V.is_str(method))
        I.oblige(f"{pfx}.send_message.requires_params_none_or_dict@{getattr(node, 'lineno', 0)}",
                 z3.Or(V.is_none(params), V.is_dict(params)))
        for s_, nm in ((rs, "read_stream"), (ws, "write_stream")):
            if s_ is None or V.ctor_name(z3.simplify(s_)) != "obj":
                I.oblige(f"{pfx}.send_message.requires_{nm}_is_a_stream@{getattr(node, 'lineno', 0)}", z3.BoolVal(False))
                raise PathEnd("precondition violated")
        mid = b.get("message_id", V.NONE)
        rid = I.fresh("req_id")
        I.assume(z3.And(V.is_str(rid), z3.Length(Val.s(rid)) > 0))
        if V.ctor_name(z3.simplify(mid)) != "none":
            I.assume(z3.Implies(V.truthy(mid), rid == mid))
        cd = I.ctx.repo_class(I.ctx.repo.klass(f"{JSONRPC}::JSONRPCRequest"))
        opts = list(self.outcomes)
        if "cancellation_token" in b and V.ctor_name(z3.simplify(b["cancellation_token"])) != "none":
            opts.append("cancelled")
        c = opts[I.choose_n(len(opts), "send_message_outcome")]

        def write_request():
            req = I.new_object(cd, {"jsonrpc": V.VStr("2.0"), "id": rid, "method": method, "params": params,
                                    pyd.EXTRA: V.VDict([])})
            w = Val.items(E.gfield(I, ws, "written"))
            I.set_attr(ws, "written", V.VList(z3.simplify(z3.Concat(w, z3.Unit(req)))))
            a = Val.items(E.gfield(I, ws, "attempted"))
            I.set_attr(ws, "attempted", V.VList(z3.simplify(z3.Concat(a, z3.Unit(req)))))
            I.ghost.setdefault("requests_written", []).append(req)
            return req

        def consume():
            pos = Val.i(E.gfield(I, rs, "pos"))
            p2 = I.fresh_int("pos_after")
            I.assume(p2 > pos)
            I.set_attr(rs, "pos", V.VInt(p2))
        E.clock_advance(I)
        if c == "return":
            write_request()
            consume()
            r = I.fresh("sm_result")
            # the payload of a response is JSON data (type invariant of delivered messages), never an instance
            I.assume(z3.Or(V.is_none(r), V.is_bool(r), V.is_int(r), V.is_real(r), V.is_str(r), V.is_list(r),
                           V.is_dict(r)))
            I.ghost.setdefault("send_message_results", []).append(r)
            return r
        if c in ("retryable", "nonretryable"):
            write_request()
            consume()
            code = I.fresh_int("err_code")
            perm = z3.Or([code == k for k in PERMANENT_CODES])
            I.assume(perm if c == "nonretryable" else z3.Not(perm))
            cls = NONRETRYABLE_CLS if c == "nonretryable" else RETRYABLE_CLS
            msg = I.fresh("err_msg", z3.StringSort())
            ecd = I.ctx.repo_class(I.ctx.repo.klass("src/chuk_mcp/protocol/types/errors.py::" + cls.split(".")[-1]))
            ev = I.new_object(ecd, {"__msg__": V.VStr(msg), "code": V.VInt(code), "data": V.NONE,
                                                     "args": V.VTuple([V.VStr(msg)])})
            I.ghost["send_message_raised"] = ev
            raise PyRaise(ev, cls)
        if c == "timeout":
            write_request()
            ev = I.make_exc("TimeoutError", V.VStr(""))
            I.ghost["send_message_raised"] = ev
            raise PyRaise(ev, "TimeoutError")
        if c == "read_closed":
            write_request()
            k = ["EndOfStream", "ClosedResourceError"][I.choose_n(2, "read_closed_kind")]
            ev = I.make_exc(k, V.VStr(""))
            I.ghost["send_message_raised"] = ev
            raise PyRaise(ev, k)
        if c == "write_failed":
            k = ["BrokenResourceError", "ClosedResourceError"][I.choose_n(2, "write_failed_kind")]
            ev = I.make_exc(k, V.VStr(""))
            I.ghost["send_message_raised"] = ev
            raise PyRaise(ev, k)
        if c == "cancelled":
            ccd = I.ctx.repo_class(I.ctx.repo.klass(f"{SEND}::CancelledError"))
            ev = I.new_object(ccd, {"__msg__": V.VStr("cancelled")})
            I.ghost["send_message_raised"] = ev
            raise PyRaise(ev, LIB_CANCELLED)
        raise EngineError("unknown outcome")


from pyvc.core import PathEnd, EngineError      # noqa: E402
