"""C03 - client initialization never settles on a protocol version it did not offer."""
from __future__ import annotations

import z3

from pyvc import vals as V
from pyvc.vals import Val
from pyvc import prelude as P
from pyvc import envs as E
from pyvc import pyd
from pyvc.check import Check, Canary
from pyvc.verify import Contract
from checks import sendmsg as SM

INIT = "src/chuk_mcp/protocol/messages/initialize/send_messages.py"
STDIO = "src/chuk_mcp/transports/stdio/stdio_client.py"
BATCHING = "src/chuk_mcp/protocol/features/batching.py"
VME = "chuk_mcp.protocol.types.errors.VersionMismatchError"
sb_fn = z3.Function("supports_batching_of", Val, z3.BoolSort())


class SupportsBatchingModular(Contract):
    """call-site form of C13's contract: a total, side-effect free function of the version"""
    key = f"{BATCHING}::supports_batching"

    def apply(self, I, args, kwargs, node):
        return V.VBool(sb_fn(args[0] if args else kwargs["protocol_version"]))


class InitBase(Contract):
    prop = "C03"

    def common_setup(self, I, supported_mode, preferred_mode):
        I.callsite_prefix = "C03"
        self.rs = E.make_read_stream(I, "rs")
        self.ws = E.make_write_stream(I, "ws")
        kwargs = {}
        self.S = None
        if supported_mode == "given":
            S = I.fresh("supported", V.SeqVal)
            I.assume(z3.Length(S) >= 1)
            k = z3.Int("k!s")
            I.assume(z3.ForAll([k], z3.Implies(z3.And(k >= 0, k < z3.Length(S)), V.is_str(S[k]))))
            I.assume(V.is_str(S[0]))
            self.S = S
            kwargs["supported_versions"] = V.VList(S)
        else:
            # the library default list, read from versioning.py
            mi = I.ctx.repo.load_path("src/chuk_mcp/protocol/types/versioning.py")
            lst = I.eval_module_const(mi, mi.constants["SUPPORTED_VERSIONS"])
            self.S = Val.items(lst)
        self.pref = V.NONE
        if preferred_mode == "given":
            self.pref = I.fresh("preferred")
            I.assume(V.is_str(self.pref))
            kwargs["preferred_version"] = self.pref
        t = I.fresh_real("timeout")
        I.assume(t > 0)
        kwargs["timeout"] = V.VReal(t)
        self.mode = f"supported={supported_mode},preferred={preferred_mode}"
        return kwargs

    def proposed(self):
        S = self.S
        in_list = z3.Contains(S, z3.Unit(self.pref))
        return z3.If(z3.And(V.truthy(self.pref), in_list), self.pref, S[0])

    def written_list(self, I):
        w = Val.items(E.gfield(I, self.ws, "written"))
        n = z3.simplify(z3.Length(w))
        assert z3.is_int_value(n)
        return [z3.simplify(w[j]) for j in range(n.as_long())]

    def is_initialized_notification(self, I, m):
        meth, hm = I.get_field(m, "method")
        mid, hi = I.get_field(m, "id")
        return z3.And(hm, meth == V.VStr("notifications/initialized"), z3.Not(hi))

    def is_initialize_request(self, I, m, proposed):
        meth, hm = I.get_field(m, "method")
        par, hp = I.get_field(m, "params")
        mid, hi = I.get_field(m, "id")
        pv = z3.Select(Val.dvals(par), z3.StringVal("protocolVersion"))
        return z3.And(hm, hi, meth == V.VStr("initialize"), V.is_dict(par),
                      z3.Select(Val.dkeys(par), z3.StringVal("protocolVersion")), pv == proposed)

    def check_outcome(self, I, result=None, exc=None):
        nm = self.name
        w = self.written_list(I)
        proposed = self.proposed()
        watch = {"preferred": self.pref, "supported": V.VList(self.S), "proposed": proposed}
        n_init = z3.IntVal(0)
        for m in w:
            n_init = n_init + z3.If(self.is_initialized_notification(I, m), 1, 0)
        if w:
            I.oblige(nm(f"first_written_message_is_initialize_proposing_preferred_else_first_supported[{self.mode}]"),
                     self.is_initialize_request(I, w[0], proposed), watch=watch)
        if exc is None:
            ver, hv = I.get_field(result, "protocolVersion")
            answers = I.ghost.get("send_message_results", [])
            I.oblige(nm(f"success_only_with_a_version_from_the_callers_list[{self.mode}]"),
                     z3.And(hv, V.is_str(ver), z3.Contains(self.S, z3.Unit(ver))),
                     watch=dict(watch, answered=ver))
            I.oblige(nm(f"exactly_one_initialized_notification_after_the_request[{self.mode}]"),
                     z3.And(z3.BoolVal(len(w) == 2), n_init == 1,
                            self.is_initialized_notification(I, w[1]) if len(w) == 2 else z3.BoolVal(False)))
            if answers:
                ans = answers[-1]
                pv = z3.Select(Val.dvals(ans), z3.StringVal("protocolVersion"))
                I.oblige(nm(f"returned_version_is_the_servers_answer[{self.mode}]"),
                         z3.Implies(z3.And(V.is_dict(ans), V.is_str(pv)), ver == pv), watch=dict(watch, answer=ans))
        else:
            I.oblige(nm(f"no_initialized_notification_on_any_failure[{exc.cls_name.split('.')[-1]}][{self.mode}]"),
                     n_init == 0, watch=watch)
            allowed = {VME, "TimeoutError", SM.RETRYABLE_CLS, SM.NONRETRYABLE_CLS, "PydanticValidationError",
                       "EndOfStream", "ClosedResourceError", "BrokenResourceError"}
            I.oblige(nm(f"fails_only_in_documented_ways[{exc.cls_name.split('.')[-1]}][{self.mode}]"),
                     z3.BoolVal(exc.cls_name in allowed))
            if exc.cls_name == VME:
                answers = I.ghost.get("send_message_results", [])
                if answers:
                    ans = answers[-1]
                    pv = z3.Select(Val.dvals(ans), z3.StringVal("protocolVersion"))
                    I.oblige(nm(f"mismatch_raised_only_for_an_answer_outside_the_list[{self.mode}]"),
                             z3.Implies(V.is_str(pv), z3.Not(z3.Contains(self.S, z3.Unit(pv)))), watch=watch)
            if exc.cls_name in (SM.RETRYABLE_CLS, SM.NONRETRYABLE_CLS):
                I.oblige(nm(f"jsonrpc_error_propagates_unchanged[{self.mode}]"),
                         exc.val == I.ghost.get("send_message_raised", V.NONE))


class SendInitialize(InitBase):
    key = f"{INIT}::send_initialize"
    covers = ("return", f"raise:{VME}", "raise:TimeoutError", f"raise:{SM.NONRETRYABLE_CLS}")

    def __init__(self, supported_mode, preferred_mode):
        self.sm, self.pm = supported_mode, preferred_mode

    def setup(self, I):
        kwargs = self.common_setup(I, self.sm, self.pm)
        return [self.rs, self.ws], kwargs

    def post(self, I, result):
        self.check_outcome(I, result=result)

    def post_exc(self, I, e):
        self.check_outcome(I, exc=e)


class SendInitializeTracked(InitBase):
    key = f"{INIT}::send_initialize_with_client_tracking"

    def setup(self, I):
        kwargs = self.common_setup(I, "given", "given")
        ccd = I.ctx.repo_class(I.ctx.repo.klass(f"{STDIO}::StdioClient"))
        bcd = I.ctx.repo_class(I.ctx.repo.klass(f"{BATCHING}::BatchProcessor"))
        old_v, old_e = I.fresh("old_version"), I.fresh("old_enabled")
        I.assume(V.is_bool(old_e))
        self.bp = I.new_object(bcd, {"protocol_version": old_v, "batching_enabled": old_e})
        self.old = (old_v, old_e)
        self.client = I.new_object(ccd, {"batch_processor": self.bp})
        kwargs["client"] = self.client
        return [self.rs, self.ws], kwargs

    def post(self, I, result):
        self.check_outcome(I, result=result)
        ver, _ = I.get_field(result, "protocolVersion")
        pv, _ = I.get_field(self.bp, "protocol_version")
        en, _ = I.get_field(self.bp, "batching_enabled")
        I.oblige(self.name("tracked_client_records_the_answered_version_and_its_batching_mode"),
                 z3.And(pv == ver, en == V.VBool(sb_fn(ver))))

    def post_exc(self, I, e):
        self.check_outcome(I, exc=e)
        pv, _ = I.get_field(self.bp, "protocol_version")
        en, _ = I.get_field(self.bp, "batching_enabled")
        I.oblige(self.name("tracked_client_untouched_when_initialization_fails"),
                 z3.And(pv == self.old[0], en == self.old[1]))


class C03(Check):
    prop = "C03"
    level = "proof"
    title = ("send_initialize / send_initialize_with_client_tracking verified against postconditions over the "
             "ghost 'written' sequence for all supported lists, preferred versions and server answers")
    design_ref = "section 7, C03"
    trusted = ["send_message is used through its contract (proved in C01/C07/C14): returns any payload or raises "
               "Retryable/NonRetryable/Timeout/stream errors, appending exactly one request",
               "supports_batching is used through its contract (C13): a total function of the version",
               "pydantic per pyvc.pyd; nested models (capabilities, clientInfo, serverInfo) kept opaque"]

    def install(self, ctx):
        SM.install(ctx)

    def modular(self):
        return {SM.SEND_KEY: SM.SendMessageModular(), f"{BATCHING}::supports_batching": SupportsBatchingModular()}

    def contracts(self):
        from checks import C13
        # the tracked client's batching mode is decided by supports_batching: its contract (older than the cut-off, in
        # code-point order, for every dddd-dd-dd string) is re-verified here instead of being taken on trust
        return [SendInitialize("given", "given"), SendInitialize("given", "none"), SendInitialize("default", "none"),
                SendInitializeTracked()] + [C13.SupportsBatching(m) for m in ("dated", "none", "empty")]

    def canaries(self):
        return [
            Canary("mismatch not raised (else branch dropped)", INIT,
                   "            raise VersionMismatchError(proposed_version, [server_version])\n",
                   "            pass\n", "success_only_with"),
            Canary("notification sent before the membership test", INIT,
                   "        # Version negotiation per MCP specification\n",
                   "        await send_initialized_notification(write_stream)\n", "C03."),
            Canary("proposes the last supported version", INIT, "proposed_version = supported_versions[0]",
                   "proposed_version = supported_versions[-1]", "first_written"),
            Canary("returns before the notification", INIT,
                   "        await send_initialized_notification(write_stream)\n\n        logging.debug(f\"MCP initialization complete",
                   "        logging.debug(f\"MCP initialization complete", "exactly_one_initialized"),
            Canary("acceptance tested against the library list instead of the caller's", INIT,
                   "        elif server_version in supported_versions:", "        elif is_version_supported(server_version):",
                   "success_only_with"),
            Canary("closed stream swallowed when sending initialized", INIT,
                   "    except Exception as e:\n        logging.error(f\"Error sending initialized notification: {e}\")\n        raise",
                   "    except Exception as e:\n        logging.error(f\"Error sending initialized notification: {e}\")",
                   "exactly_one_initialized"),
        ]

    def replay(self, name, model, rec):
        return None


    def bounded_stand_in(self, tier, undecided):
        from checks import native
        return native.stand_in(['C03.'], tier, undecided)

CHECK = C03()
