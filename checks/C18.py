"""C18 - concurrent requests on one connection: no cross-talk and no lost responses."""
from __future__ import annotations

import z3

from pyvc import vals as V
from pyvc.vals import Val
from pyvc import envs as E
from pyvc.check import Check, Canary
from checks import sendmsg as SM
from checks.sendmsg import SendMessageSetup, SEND, AWAIT_KEY


class SendMessageC18(SendMessageSetup):
    """One of several waiters on a shared read stream.  Rely: between two of this caller's receives other
    waiters may consume any number of items (ghost pos jumps forward)."""
    prop = "C18"
    concurrent_receivers = True

    def name(self, clause):
        return f"C18.send_message.{clause}[{self.cfg()}]"

    def extra_invariant(self, I, phase, name):
        if phase != "back":
            return []
        m = I.ghost.get("consumed_this_iteration")
        if m is None:
            return []
        v = self.view
        rid = self.req_id(I)
        foreign = z3.And(v.is_response(m), z3.Not(V.py_eq(v.attr(m, "id"), rid)))
        # the loop goes round again, so whatever was consumed in this iteration is gone for everybody:
        # it must not be somebody else's response
        mine = v.is_match(m, rid)
        return [("C18._await_response.own_response_once_consumed_is_returned_not_discarded", z3.Not(mine),
                 {"watch": {"req_id": rid, "consumed_id": v.attr(m, "id")}}),
                ("C18._await_response.no_foreign_response_is_consumed_and_discarded", z3.Not(foreign),
                 {"classes": {"foreign-response-discarded-at-skip-branch": foreign},
                  "watch": {"req_id": rid, "consumed_id": v.attr(m, "id"), "consumed_method": v.attr(m, "method")}})]

    def post(self, I, result):
        v, pos, inc = self.view, self.pos(I), self.incoming
        rid = self.req_id(I)
        last = inc[pos - 1]
        I.oblige(self.name("caller_is_handed_only_a_response_bearing_its_own_id"),
                 z3.And(pos >= 1, v.is_match(last, rid), result == v.payload(last)),
                 watch={"req_id": rid, "last_id": v.attr(last, "id"), "last_method": v.attr(last, "method")})

    def post_exc(self, I, e):
        v, pos, inc = self.view, self.pos(I), self.incoming
        rid = self.req_id(I)
        if e.cls_name in (SM.RETRYABLE_CLS, SM.NONRETRYABLE_CLS):
            last = inc[pos - 1]
            I.oblige(self.name("caller_is_handed_only_an_error_bearing_its_own_id"),
                     z3.And(pos >= 1, v.is_match(last, rid)), watch={"req_id": rid, "last_id": v.attr(last, "id")})


class C18(Check):
    prop = "C18"
    level = "proof"
    title = ("no cross-talk proved under the rely 'other waiters may consume items between my receives'; "
             "no-loss is a frame obligation that fails by construction (known finding)")
    design_ref = "section 7, C18"
    trusted = ["single-threaded asyncio: state is atomic between awaits; other waiters only advance the shared "
               "stream position"]

    def install(self, ctx):
        SM.install(ctx)
        from checks import stdio as ST
        ST.install(ctx)
        from checks import C13
        ctx.env_class(C13.T_HOLDER)

    def modular(self):
        from checks import C13
        return C13.CHECK.modular()

    def contracts(self):
        from checks import C13
        # cross-talk is also possible one layer below, where the stdio client routes an incoming message to per-request
        # streams: the routing contract (a waiter registered under another id is never handed this message) is
        # re-verified here
        return [SendMessageC18(False, False, id_mode="given"), SendMessageC18(False, False, id_mode="uuid"),
                C13.RouteMessage(), C13.NewRequestStream(),
                # a response that arrives inside a batch must reach its caller whatever its neighbours look like: every valid
                # member is delivered in order, an invalid member is dropped alone (C13 transport contract)
                C13.ProcessMessageData("dated", "batch"), C13.ProcessMessageData("none", "batch")]

    def loop_invariants(self):
        from checks import C13
        inv = dict(C13.CHECK.loop_invariants())
        inv[(AWAIT_KEY, 0)] = SM.await_loop_invariant("C18")
        return inv

    def canaries(self):
        return [
            Canary("id filter removed (cross-talk)", SEND, "        if msg_id != req_id:\n", "        if False:\n",
                   "bearing_its_own_id"),
            Canary("ids compared as strings", SEND, "        if msg_id != req_id:\n",
                   "        if str(msg_id) != str(req_id):\n", "bearing_its_own_id"),
        ]

    def replay(self, name, model, rec):
        from checks import replay_sendmsg
        return replay_sendmsg.replay_c18(name, model, rec)


    def bounded_stand_in(self, tier, undecided):
        from checks import native
        return native.stand_in(['C13.'], tier, undecided)

CHECK = C18()
