"""C11 - Streamable HTTP: exactly one terminal message per request, whatever the server."""
from __future__ import annotations

import z3

from pyvc import vals as V
from pyvc.vals import Val
from pyvc import prelude as P
from pyvc import envs as E
from pyvc import pyd
from pyvc.core import PyRaise
from pyvc.check import Check, Canary
from pyvc.verify import Contract
from checks import stdio as ST

HTTP = "src/chuk_mcp/transports/http/transport.py"
S = z3.StringSort()


def K(s):
    return z3.StringVal(s)


def has(d, k):
    return z3.Select(Val.dkeys(d), K(k))


def val(d, k):
    return z3.Select(Val.dvals(d), K(k))


def json_value(v):
    return z3.Or(V.is_none(v), V.is_bool(v), V.is_int(v), V.is_real(v), V.is_str(v), V.is_list(v), V.is_dict(v))


# --------------------------------------------------------------------------- httpx environment
class ResponseEnv(E.EnvClass):
    """httpx.Response: status_code, headers (lower-cased names), text (never raises: httpx decodes with
    replacement), json() = the parsed body or JSONDecodeError"""
    name = "HttpxResponse"

    def __init__(self):
        self.methods = {"json": self.json}

    def json(self, I, recv, args, kwargs):
        t = Val.s(E.gfield(I, recv, "text"))
        if I.choose(ST.json_ok(t), "body_is_json"):
            v = ST.json_val(t)
            I.assume(json_value(v))
            I.assume(z3.Implies(V.is_dict(v), Val.dsize(v) >= 0))
            return v
        raise PyRaise(I.make_exc("JSONDecodeError", V.VStr("Expecting value")), "JSONDecodeError")


class ClientEnv(E.EnvClass):
    """httpx.AsyncClient as used here: a context manager whose post() returns a Response, raises
    asyncio.TimeoutError, or raises any other Exception (connect error, protocol error, ...)."""
    name = "HttpxClient"

    def __init__(self):
        self.methods = {"__aenter__": E.is_async(lambda I, r, a, k: r),
                        "__aexit__": E.is_async(lambda I, r, a, k, exc=None: V.FALSE),
                        "post": E.is_async(self.post)}

    def post(self, I, recv, args, kwargs):
        c11 = I.c11
        c11.posts.append(dict(url=args[0] if args else kwargs.get("url"), json=kwargs.get("json"),
                              headers=kwargs.get("headers")))
        c = I.choose_n(3, "post_outcome")
        E.checkpoint_nofire(I)
        if c == 1:
            I.throw("TimeoutError", "")
        if c == 2:
            raise PyRaise(I.make_exc("AnyException", V.VStr(I.fresh("netmsg", S))), "AnyException")
        return c11.response


RESPONSE = ResponseEnv()
CLIENT = ClientEnv()


def x_async_client(I, args, kwargs, node):
    I.c11.client_kwargs.append(dict(kwargs))
    return E.new_env_object(I, CLIENT)


def x_timeout(I, args, kwargs, node):
    """httpx.Timeout(t, connect=, read=, write=, pool=): every phase of the request must be bounded (C11: a stalled
    server yields a synthesised timeout error and never blocks later requests)"""
    finite = [V.concrete_bool(V.is_none(a)) is False or V.concrete_bool(V.is_none(a)) is None for a in args]
    vals_ = list(args) + list(kwargs.values())
    unbounded = z3.Or([V.is_none(v) for v in vals_]) if vals_ else z3.BoolVal(True)
    I.oblige("C11._send_message_internal.every_phase_of_the_request_has_a_finite_timeout", z3.Not(unbounded))
    return E.new_env_object(I, E.CALLBACK.__class__() if False else OPAQUE)


class OpaqueEnv(E.EnvClass):
    name = "Opaque11"
    methods = {}


OPAQUE = OpaqueEnv()


class SemaphoreEnv(E.EnvClass):
    name = "Semaphore"

    def __init__(self):
        self.methods = {"__aenter__": E.is_async(lambda I, r, a, k: r),
                        "__aexit__": E.is_async(lambda I, r, a, k, exc=None: V.FALSE)}


SEMAPHORE = SemaphoreEnv()


# --------------------------------------------------------------------------- oracles
def is_message_object(d):
    """a JSON-RPC 2.0 message object (request / notification / response / error)"""
    idv, meth, res, err = val(d, "id"), val(d, "method"), val(d, "result"), val(d, "error")
    idok = z3.Or(z3.Not(has(d, "id")), V.is_int(idv), V.is_str(idv))
    is_req = z3.And(has(d, "method"), V.is_str(meth), z3.Not(has(d, "result")), z3.Not(has(d, "error")))
    is_res = z3.And(has(d, "id"), has(d, "result"), z3.Not(V.is_none(res)), z3.Not(has(d, "error")), z3.Not(has(d, "method")))
    is_err = z3.And(has(d, "error"), V.is_dict(err), has(err, "code"), V.is_int(val(err, "code")),
                    has(err, "message"), V.is_str(val(err, "message")), z3.Not(has(d, "result")), z3.Not(has(d, "method")))
    return z3.And(V.is_dict(d), has(d, "jsonrpc"), val(d, "jsonrpc") == V.VStr("2.0"), idok, z3.Or(is_req, is_res, is_err))


def routable(d):
    """messages _route_response is proved to deliver: JSON-RPC message objects whose params (if any) are an object
    and whose result (if any) is an object"""
    return z3.And(is_message_object(d),
                  z3.Or(z3.Not(has(d, "params")), V.is_none(val(d, "params")), V.is_dict(val(d, "params"))),
                  z3.Or(z3.Not(has(d, "result")), V.is_dict(val(d, "result"))))


# what one batch member contributes to the read stream: itself iff it validates as a message (`delivers` is the
# validation outcome, a function of the data: routable => delivers, not an object => not delivers)
delivers = z3.Function("c11_delivers", V.Val, z3.BoolSort())
EB = z3.Function("c11_EB", V.SeqVal, V.SeqVal)          # flat-map of docb over the members, specified by its unfolding


def docb(x):
    return z3.If(delivers(x), z3.Unit(x), z3.Empty(V.SeqVal))


def delivered_data(I, inc):
    """ghost: the data of the messages routed so far, kept in a field of the read stream's send end (heap state, so it
    is havocked and constrained by loop invariants like everything else)"""
    v, h = I.get_field(inc, "delivered_data")
    return Val.items(z3.If(h, v, V.VList([])))


def set_delivered_data(I, inc, seq):
    I.set_attr(inc, "delivered_data", V.VList(seq))


class RouteModular(Contract):
    """call-site form of _route_response's proved contract: a routable message is delivered as an object carrying
    the given members; anything else is delivered (if it happens to validate) or dropped; never raises."""
    key = f"{HTTP}::StreamableHTTPTransport._route_response"

    def apply(self, I, args, kwargs, node):
        transport, d = args[0], args[1]
        inc, _ = I.get_field(transport, "_incoming_send")
        if I.choose(V.is_list(d), "body_is_a_batch"):
            # proved by RouteResponseBatch: the members that validate are delivered, in order, one message each
            items = Val.items(d)
            I.ghost["batch_path"] = items
            I.counter += 1
            R = z3.Const(f"batch_msgs~{I.counter}", V.SeqVal)
            I.assume(z3.Length(R) == z3.Length(EB(items)))
            a = Val.items(E.gfield(I, inc, "attempted"))
            I.set_attr(inc, "attempted", V.VList(z3.Concat(a, R)))
            set_delivered_data(I, inc, z3.Concat(delivered_data(I, inc), EB(items)))
            E.checkpoint_nofire(I)
            return V.NONE
        deliver = True
        if not I.choose(routable(d), "routable"):
            deliver = I.choose_n(2, "route_outcome") == 0
            if deliver:
                I.assume(V.is_dict(d))
        I.assume(delivers(d) == z3.BoolVal(bool(deliver)))
        if deliver:
            set_delivered_data(I, inc, z3.simplify(z3.Concat(delivered_data(I, inc), z3.Unit(d))))
            cd = I.ctx.env_class(ST.MESSAGE)

            def get(n):
                return z3.If(has(d, n), val(d, n), V.NONE)
            m = I.new_object(cd, {n: get(n) for n in ("id", "method", "params", "result", "error")})
            a = Val.items(E.gfield(I, inc, "attempted"))
            I.set_attr(inc, "attempted", V.VList(z3.simplify(z3.Concat(a, z3.Unit(m)))))
        E.checkpoint_nofire(I)
        return V.NONE


class SendInternal(Contract):
    key = f"{HTTP}::StreamableHTTPTransport._send_message_internal"
    prop = "C11"

    def __init__(self, kind):
        self.kind = kind           # request | notification

    def name(self, clause):
        return f"C11._send_message_internal.{clause}[{self.kind}]"

    def setup(self, I):
        I.c11 = self
        self.posts, self.client_kwargs = [], []
        tcd = I.ctx.repo_class(I.ctx.repo.klass(f"{HTTP}::StreamableHTTPTransport"))
        self.incoming = E.make_write_stream(I, "incoming")
        I.set_attr(self.incoming, "delivered_data", V.VList([]), record=False)
        self.old_session = I.fresh("session_id")
        I.assume(z3.Or(V.is_none(self.old_session), z3.And(V.is_str(self.old_session), z3.Length(Val.s(self.old_session)) > 0)))
        cfg_headers = I.fresh("cfg_headers")
        I.assume(z3.And(V.is_dict(cfg_headers), Val.dsize(cfg_headers) >= 0))
        timeout = I.fresh("timeout")
        I.assume(z3.And(V.is_real(timeout), Val.r(timeout) > 0))
        self.transport = I.new_object(tcd, {
            "endpoint_url": V.VStr(I.fresh("url", S)), "headers": cfg_headers, "timeout": timeout,
            "enable_streaming": V.VBool(I.fresh_bool("streaming")), "_session_id": self.old_session,
            "_pending_requests": V.VDict([]), "_incoming_send": self.incoming,
            "_request_semaphore": E.new_env_object(I, SEMAPHORE)})
        # the outgoing message as a plain dict (what model_dump(exclude_none=True) of an envelope gives)
        msg = I.fresh("message")
        I.assume(z3.And(V.is_dict(msg), Val.dsize(msg) >= 1))
        mid = val(msg, "id")
        if self.kind == "request":
            I.assume(z3.And(has(msg, "id"), z3.Or(V.is_int(mid), V.is_str(mid)), has(msg, "method"), V.is_str(val(msg, "method"))))
        else:
            I.assume(z3.And(z3.Not(has(msg, "id")), has(msg, "method"), V.is_str(val(msg, "method"))))
        self.msg = msg
        self.mid = z3.If(has(msg, "id"), mid, V.NONE)
        # the server's answer
        status = I.fresh_int("status")
        I.assume(z3.And(status >= 100, status <= 599))
        rh = I.fresh("response_headers")
        I.assume(z3.And(V.is_dict(rh), Val.dsize(rh) >= 0))
        for k in ("mcp-session-id", "content-type"):
            I.assume(z3.Implies(has(rh, k), z3.And(V.is_str(val(rh, k)), Val.dsize(rh) >= 1)))
        I.assume(z3.Implies(has(rh, "mcp-session-id"), z3.Length(Val.s(val(rh, "mcp-session-id"))) > 0))
        text = I.fresh("body", S)
        self.status, self.rh, self.text = status, rh, text
        self.response = E.new_env_object(I, RESPONSE, status_code=V.VInt(status), headers=rh, text=V.VStr(text))
        return [self.transport, msg], {}

    # ---- what reached the read stream
    def delivered(self, I):
        w = Val.items(E.gfield(I, self.incoming, "attempted"))
        n = z3.simplify(z3.Length(w))
        return [z3.simplify(w[k]) for k in range(n.as_long())] if z3.is_int_value(n) else None

    def fld(self, I, m, n):
        v, h = I.get_field(m, n)
        return z3.If(h, v, V.NONE)

    def is_error_for_request(self, I, m, code=None):
        err = self.fld(I, m, "error")
        c = [V.is_obj(m), self.fld(I, m, "id") == self.mid, V.is_dict(err), V.is_int(val(err, "code")),
             V.is_str(val(err, "message")), V.is_none(self.fld(I, m, "result")), V.is_none(self.fld(I, m, "method"))]
        if code is not None:
            c.append(val(err, "code") == V.VInt(code))
        return z3.And(c)

    def is_the_servers_message(self, I, m, d):
        return z3.And(V.is_obj(m), *[self.fld(I, m, n) == z3.If(has(d, n), val(d, n), V.NONE)
                                     for n in ("id", "method", "params", "result", "error")])

    def post(self, I, result):
        nm = self.name
        watch = {"status": V.VInt(self.status), "headers": self.rh, "body": V.VStr(self.text), "request_id": self.mid}
        items = I.ghost.get("batch_path")
        if items is not None:
            # the body was a JSON array: its members that are messages reach the read stream, in order, nothing else
            w = Val.items(E.gfield(I, self.incoming, "attempted"))
            data = ST.json_val(self.text)
            first = items[0]
            I.assume(z3.Implies(z3.Length(items) >= 1,
                                EB(items) == z3.Concat(docb(first), EB(z3.Extract(items, 1, z3.Length(items) - 1)))))   # unfolding
            dd = delivered_data(I, self.incoming)
            I.oblige(nm("json_batch_body_delivers_its_members"),
                     z3.And(V.is_list(data), items == Val.items(data), dd == EB(items), z3.Length(w) == z3.Length(EB(items))), watch=watch)
            I.assume(z3.Implies(routable(first), delivers(first)))
            I.oblige(nm("json_batch_body_delivers_its_first_message_first"),
                     z3.Implies(z3.And(z3.Length(items) >= 1, routable(first)), z3.And(z3.Length(w) >= 1, dd[0] == first)), watch=watch)
            I.oblige(nm("exactly_one_post_per_message"), z3.BoolVal(len(self.posts) == 1))
            return
        dl = self.delivered(I)
        if dl is None:
            I.oblige(nm("delivery_is_observable"), z3.BoolVal(False))
            return
        n = len(dl)
        posted = len(self.posts) == 1
        I.oblige(nm("exactly_one_post_per_message"), z3.BoolVal(posted))
        if not posted:
            return
        post = self.posts[0]
        # session: the request carried the session id known before it; afterwards the most recent one is known
        hdr = post["headers"]
        I.oblige(nm("request_carries_the_current_session_id"),
                 z3.Implies(z3.Not(V.is_none(self.old_session)),
                            z3.And(has(hdr, "Mcp-Session-Id"), val(hdr, "Mcp-Session-Id") == self.old_session)), watch=watch)
        I.oblige(nm("request_body_is_the_message"), post["json"] == self.msg)
        outcome = I.ghost.get("post_result", "response")
        sid, _ = I.get_field(self.transport, "_session_id")
        got_response = "post_outcome#0" in " ".join(I.trace)
        ok_status = self.status < 400
        if got_response:
            issued = z3.And(ok_status, has(self.rh, "mcp-session-id"))
            I.oblige(nm("most_recent_session_id_is_remembered"),
                     sid == z3.If(issued, val(self.rh, "mcp-session-id"), self.old_session), watch=watch)
        else:
            I.oblige(nm("session_id_kept_when_the_request_failed"), sid == self.old_session)
        # never anything carrying an id for a notification
        no_id = z3.And([V.is_none(self.fld(I, m, "id")) for m in dl]) if dl else z3.BoolVal(True)
        if self.kind == "notification" and not got_response:
            I.oblige(nm("nothing_carrying_an_id_is_synthesised_for_a_notification"), no_id, watch=watch)
            return
        if not got_response:
            # transport exception or timeout: exactly one synthesised error with the request id
            timed_out = "post_outcome#1" in " ".join(I.trace)
            okm = z3.BoolVal(False)
            if n == 1:
                okm = self.is_error_for_request(I, dl[0], -32000) if timed_out else \
                    z3.Or(self.is_error_for_request(I, dl[0], -32603), self.is_error_for_request(I, dl[0], -32000))
            I.oblige(nm("failure_or_timeout_yields_exactly_one_error_with_the_request_id"),
                     z3.And(z3.BoolVal(n == 1), okm), watch=watch)
            return
        ct = z3.If(has(self.rh, "content-type"), Val.s(val(self.rh, "content-type")), z3.StringVal(""))
        is_json_ct = z3.Contains(ct, K("application/json"))
        is_sse_ct = z3.And(z3.Not(is_json_ct), z3.Contains(ct, K("text/event-stream")))
        body_ok = ST.json_ok(self.text)
        data = ST.json_val(self.text)
        if self.kind == "notification":
            ct_ = z3.If(has(self.rh, "content-type"), Val.s(val(self.rh, "content-type")), z3.StringVal(""))
            synth = z3.Or(self.status >= 400, z3.And(z3.Contains(ct_, K("application/json")), z3.Not(ST.json_ok(self.text))))
            I.oblige(nm("nothing_carrying_an_id_is_synthesised_for_a_notification"), z3.Implies(synth, no_id), watch=watch)
            return
        # (1) error status: exactly one synthesised error
        I.oblige(nm("error_status_yields_exactly_one_error_with_the_request_id"),
                 z3.Implies(self.status >= 400, z3.And(z3.BoolVal(n == 1),
                                                       self.is_error_for_request(I, dl[0], -32603) if n == 1 else z3.BoolVal(False))),
                 watch=watch)
        # (2) JSON body
        json_case = z3.And(ok_status, is_json_ct)
        I.oblige(nm("malformed_json_body_yields_exactly_one_parse_error_with_the_request_id"),
                 z3.Implies(z3.And(json_case, z3.Not(body_ok)),
                            z3.And(z3.BoolVal(n == 1), self.is_error_for_request(I, dl[0], -32700) if n == 1 else z3.BoolVal(False))),
                 watch=watch)
        single = z3.And(json_case, body_ok, routable(data))
        I.oblige(nm("json_body_with_one_message_delivers_exactly_that_message"),
                 z3.Implies(single, z3.And(z3.BoolVal(n == 1), self.is_the_servers_message(I, dl[0], data) if n == 1 else z3.BoolVal(False))),
                 watch=watch)
        junk = z3.And(json_case, body_ok, z3.Not(V.is_list(data)), z3.Not(is_message_object(data)))
        if self.kind == "request":
            I.oblige(nm("json_body_that_is_no_message_yields_one_error_with_the_request_id"),
                     z3.Implies(junk, z3.And(z3.BoolVal(n == 1), self.is_error_for_request(I, dl[0]) if n == 1 else z3.BoolVal(False))),
                     watch=watch, classes={"json-body-that-is-not-a-message-is-delivered-or-dropped-without-a-terminal-error": junk})
        # nothing is ever invented: at most one message for a non-SSE answer
        I.oblige(nm("non_sse_answer_never_yields_more_than_one_message"),
                 z3.Implies(z3.Or(self.status >= 400, json_case), z3.BoolVal(n <= 1)), watch=watch)

    def post_exc(self, I, e):
        I.oblige(self.name(f"no_exception_escapes_so_later_requests_are_still_processed[{e.cls_name}]"),
                 z3.BoolVal(e.cls_name == "CancelledError"))


class SseTextModular(Contract):
    """_process_sse_text / _process_sse_response: deliver zero or more of the body's messages, never raise
    (the SSE line machine itself is not under contract yet - see DESIGN.md, C11 known findings)"""

    def __init__(self, key):
        self.key = key

    def apply(self, I, args, kwargs, node):
        I.ghost["sse_body"] = True
        E.checkpoint_nofire(I)
        return V.NONE


class RouteResponse(Contract):
    """_route_response(data): delivers the message object built from `data` when it validates, drops it otherwise;
    never raises"""
    key = f"{HTTP}::StreamableHTTPTransport._route_response"
    prop = "C11"

    def setup(self, I):
        I.c11 = self
        tcd = I.ctx.repo_class(I.ctx.repo.klass(f"{HTTP}::StreamableHTTPTransport"))
        self.incoming = E.make_write_stream(I, "incoming")
        self.transport = I.new_object(tcd, {"_pending_requests": V.VDict([]), "_incoming_send": self.incoming})
        d = I.fresh("response_data")
        I.assume(json_value(d))
        I.assume(z3.Not(V.is_list(d)))                 # arrays: RouteResponseBatch
        I.assume(z3.Implies(V.is_dict(d), Val.dsize(d) >= 0))
        self.d = d
        return [self.transport, d], {}

    def post(self, I, result):
        w = Val.items(E.gfield(I, self.incoming, "attempted"))
        I.oblige(self.name("delivers_at_most_one_message"), z3.Length(w) <= 1)
        m = w[0]

        def fld(n):
            v, h = I.get_field(m, n)
            return z3.If(h, v, V.NONE)
        d = self.d
        I.oblige(self.name("nothing_but_a_json_object_is_ever_delivered"), z3.Implies(z3.Length(w) == 1, V.is_dict(d)))
        I.oblige(self.name("a_delivered_message_carries_the_given_members_unchanged"),
                 z3.Implies(z3.And(z3.Length(w) == 1, is_message_object(d)),
                            z3.And(*[fld(n) == z3.If(has(d, n), val(d, n), V.NONE)
                                     for n in ("id", "method", "params", "result", "error")])), watch={"data": d})
        I.oblige(self.name("a_valid_message_is_always_delivered"),
                 z3.Implies(routable(d), z3.Length(w) == 1), watch={"data": d})
        nonobj = z3.And(is_message_object(d), has(d, "result"), z3.Not(V.is_dict(val(d, "result"))))
        I.oblige(self.name("a_response_with_a_non_object_result_is_delivered_too"),
                 z3.Implies(nonobj, z3.Length(w) == 1), watch={"data": d},
                 classes={"response-with-non-object-result-dropped": nonobj})

    def post_exc(self, I, e):
        I.oblige(self.name(f"never_raises[{e.cls_name}]"), z3.BoolVal(e.cls_name == "CancelledError"))


class RouteResponseBatch(Contract):
    """_route_response(array): every member is routed through _route_response's own contract, in order: the data that
    reaches the read stream is EB(members), one message per delivered member; never raises.  (Members are JSON objects
    or scalars; an array nested inside a batch is outside the quantifier, as in C13.)"""
    key = f"{HTTP}::StreamableHTTPTransport._route_response"
    prop = "C11"
    covers = ("return",)

    def name(self, clause):
        return f"C11.StreamableHTTPTransport._route_response.batch.{clause}"

    def setup(self, I):
        I.c11 = self
        tcd = I.ctx.repo_class(I.ctx.repo.klass(f"{HTTP}::StreamableHTTPTransport"))
        self.incoming = E.make_write_stream(I, "incoming")
        self.transport = I.new_object(tcd, {"_pending_requests": V.VDict([]), "_incoming_send": self.incoming})
        d = I.fresh("response_batch")
        I.assume(V.is_list(d))
        self.items = Val.items(d)
        I.set_attr(self.incoming, "delivered_data", V.VList([]), record=False)
        I.assume(EB(z3.Empty(V.SeqVal)) == z3.Empty(V.SeqVal))
        return [self.transport, d], {}

    def post(self, I, result):
        w = Val.items(E.gfield(I, self.incoming, "attempted"))
        I.oblige(self.name("delivers_the_members_that_are_messages_in_order"), delivered_data(I, self.incoming) == EB(self.items))
        I.oblige(self.name("one_message_per_delivered_member"), z3.Length(w) == z3.Length(EB(self.items)))

    def post_exc(self, I, e):
        I.oblige(self.name(f"never_raises[{e.cls_name}]"), z3.BoolVal(e.cls_name == "CancelledError"))


def route_batch_inv(I, phase):
    c = I.c11
    if not isinstance(c, RouteResponseBatch):
        return []
    name = "C11.StreamableHTTPTransport._route_response.batch_loop"
    items = c.items
    i = Val.i(I.frame.vars["__i0"])
    w = Val.items(E.gfield(I, c.incoming, "attempted"))
    done = z3.Extract(items, 0, i)
    if phase == "head":
        x = items[i]
        I.assume(z3.Implies(i < z3.Length(items),
                            z3.And(EB(z3.Concat(done, z3.Unit(x))) == z3.Concat(EB(done), docb(x)),
                                   z3.Extract(items, 0, i + 1) == z3.Concat(done, z3.Unit(x)),
                                   json_value(x), z3.Not(V.is_list(x)), z3.Implies(V.is_dict(x), Val.dsize(x) >= 0))))
        I.assume(z3.Extract(items, 0, z3.Length(items)) == items)
    return [(f"{name}.delivered_are_the_message_members_so_far_in_order", delivered_data(I, c.incoming) == EB(done)),
            (f"{name}.one_message_per_delivered_member", z3.Length(w) == z3.Length(EB(done)))]


class SenderLoop(Contract):
    """_outgoing_message_handler: a failure on one message never ends the loop; it ends only when the write
    stream ends or the task is cancelled"""
    key = f"{HTTP}::StreamableHTTPTransport._outgoing_message_handler"
    prop = "C11"
    covers = ("return",)

    def setup(self, I):
        I.c11 = self
        tcd = I.ctx.repo_class(I.ctx.repo.klass(f"{HTTP}::StreamableHTTPTransport"))
        self.outgoing = E.make_read_stream(I, "outgoing")
        self.transport = I.new_object(tcd, {"_outgoing_recv": self.outgoing})
        return [self.transport], {}

    def post(self, I, result):
        pos = Val.i(E.gfield(I, self.outgoing, "pos"))
        inc = Val.items(E.gfield(I, self.outgoing, "incoming"))
        handled = I.ghost.get("handled", 0)
        I.oblige(self.name("loop_ends_only_when_the_write_stream_ends"),
                 z3.Or(pos == z3.Length(inc), z3.BoolVal(bool(I.ghost.get("stream_error")))))

    def post_exc(self, I, e):
        I.oblige(self.name(f"sender_loop_never_dies[{e.cls_name}]"), z3.BoolVal(e.cls_name == "CancelledError"))


class SendViaHttpModular(Contract):
    """call-site form of _send_message_via_http's proved contract: no Exception escapes"""
    key = f"{HTTP}::StreamableHTTPTransport._send_message_via_http"

    def apply(self, I, args, kwargs, node):
        I.ghost["handled"] = I.ghost.get("handled", 0) + 1
        E.checkpoint_nofire(I)
        return V.NONE


class SendViaHttp(Contract):
    key = f"{HTTP}::StreamableHTTPTransport._send_message_via_http"
    prop = "C11"

    def setup(self, I):
        tcd = I.ctx.repo_class(I.ctx.repo.klass(f"{HTTP}::StreamableHTTPTransport"))
        self.transport = I.new_object(tcd, {"_request_semaphore": E.new_env_object(I, SEMAPHORE)})
        return [self.transport, I.fresh("message")], {}

    def post_exc(self, I, e):
        I.oblige(self.name(f"no_exception_escapes[{e.cls_name}]"), z3.BoolVal(e.cls_name == "CancelledError"))


class SendInternalModular(Contract):
    """call-site form of _send_message_internal's contract: never raises"""
    key = f"{HTTP}::StreamableHTTPTransport._send_message_internal"

    def apply(self, I, args, kwargs, node):
        E.checkpoint_nofire(I)
        return V.NONE


class C11(Check):
    prop = "C11"
    level = "proof"
    title = ("_send_message_internal proved against a case postcondition over an arbitrary httpx answer (status, "
             "headers, body, timeout, exception) for requests and notifications; _route_response, the sender loop and "
             "the session-id bookkeeping proved; the SSE line machine is not under contract (listed); two JSON-body "
             "clauses fail and are listed known findings")
    design_ref = "section 7, C11"
    trusted = ["httpx.AsyncClient.post returns a response (status, lower-cased headers, text, json()) or raises "
               "asyncio.TimeoutError / any Exception; Response.text never raises",
               "pydantic per pyvc.pyd for JSONRPCMessage.model_validate (post-init from /repo executed)",
               "_process_sse_text/_process_sse_response are used through a havoc contract (deliver some messages, never "
               "raise): the SSE encodings clause of the property is NOT decided by this check"]

    def install(self, ctx):
        E.install_standard(ctx)
        pyd.install(ctx)
        for e in (RESPONSE, CLIENT, OPAQUE, SEMAPHORE):
            ctx.env_class(e)
        ctx.extern_handlers.update({
            "httpx.AsyncClient": x_async_client, "httpx.Timeout": x_timeout,
            "os.getenv": lambda I, a, k, n: (I.fresh("envval") if False else _getenv(I)),
            "os.environ.get": lambda I, a, k, n: (a[1] if len(a) > 1 else V.NONE),
            "traceback.print_exc": lambda I, a, k, n: V.NONE,
        })

    def modular(self):
        return {f"{HTTP}::StreamableHTTPTransport._process_sse_text": SseTextModular(f"{HTTP}::StreamableHTTPTransport._process_sse_text"),
                f"{HTTP}::StreamableHTTPTransport._process_sse_response": SseTextModular(f"{HTTP}::StreamableHTTPTransport._process_sse_response"),
                f"{ST.FASTJSON}::loads": ST.LoadsModular(),
                f"{HTTP}::StreamableHTTPTransport._route_response": RouteModular(),
                f"{HTTP}::StreamableHTTPTransport._send_message_via_http": SendViaHttpModular(),
                f"{HTTP}::StreamableHTTPTransport._send_message_internal": SendInternalModular()}

    def contracts(self):
        return [SendInternal("request"), SendInternal("notification"), RouteResponse(), RouteResponseBatch(), SenderLoop(),
                SendViaHttp()]

    def loop_invariants(self):
        def inv(I, phase):
            h = I.frame.vars.get("headers")
            return [("C11._send_message_internal.header_loop.request_headers_stay_a_dict_with_the_fixed_members",
                     z3.And(V.is_dict(h), has(h, "Content-Type"), has(h, "Accept"), Val.dsize(h) >= 2))]
        return {(f"{HTTP}::StreamableHTTPTransport._send_message_internal", 0): inv,
                (f"{HTTP}::StreamableHTTPTransport._route_response", 0): route_batch_inv}

    def canaries(self):
        return [
            Canary("session id never stored", HTTP,
                   '                        self._session_id = response.headers["mcp-session-id"]\n', "                        pass\n",
                   "most_recent_session"),
            Canary("first session id wins", HTTP, '                    if "mcp-session-id" in response.headers:',
                   '                    if not self._session_id and "mcp-session-id" in response.headers:', "most_recent_session"),
            Canary("nothing routed on an error status", HTTP,
                   "                        await self._route_response(error_response)\n                        return\n\n                    # Extract session ID",
                   "                        return\n\n                    # Extract session ID", "error_status_yields"),
            Canary("outer try removed from the sender loop", HTTP,
                   "            async for message in self._outgoing_recv:\n                await self._send_message_via_http(message)\n        except asyncio.CancelledError:\n            pass\n        except Exception as e:\n            logger.error(f\"Error in outgoing message handler: {e}\")",
                   "            async for message in self._outgoing_recv:\n                await self._send_message_via_http(message)\n                break\n        except asyncio.CancelledError:\n            pass",
                   "loop_ends_only"),
            Canary("no read timeout when streaming", HTTP, "timeout=httpx.Timeout(self.timeout), follow_redirects=True",
                   "timeout=httpx.Timeout(self.timeout, read=None if self.enable_streaming else self.timeout), follow_redirects=True",
                   "finite_timeout"),
            Canary("timeout error carries no id", HTTP,
                   '                        "id": message_id,\n                        "error": {"code": -32000, "message": "Request timeout"},',
                   '                        "id": None,\n                        "error": {"code": -32000, "message": "Request timeout"},',
                   "failure_or_timeout"),
            Canary("session header not sent", HTTP, '                headers["Mcp-Session-Id"] = self._session_id\n',
                   "                pass\n", "carries_the_current_session"),
        ]

    def replay(self, name, model, rec):
        return None


def _getenv(I):
    v = I.fresh("bearer")
    I.assume(z3.Or(V.is_none(v), V.is_str(v)))
    return v


def _bounded_stand_in11(self, tier, undecided):
    from checks import native
    return native.stand_in(['C11.'], tier, undecided)


C11.bounded_stand_in = _bounded_stand_in11
CHECK = C11()


# =========================================================================== SSE bodies, shape by shape
class SseText(Contract):
    """_process_sse_text on a body of a given spec-conformant SHAPE with arbitrary JSON payload(s): every message the
    body contains is delivered, in order, and nothing else.  (WHATWG event-stream line grammar: `data:` with or without
    one space, default event type `message`, comment lines, CRLF or LF.)"""
    key = f"{HTTP}::StreamableHTTPTransport._process_sse_text"
    prop = "C11"
    covers = ("return",)

    SHAPES = {
        # name: (template, number of payloads, payload indices expected to be delivered)
        "canonical_lf": (["event: message\ndata: ", 0, "\n\n"], 1, [0]),
        "canonical_crlf": (["event: message\r\ndata: ", 0, "\r\n\r\n"], 1, [0]),
        "two_events": (["event: message\ndata: ", 0, "\n\nevent: message\ndata: ", 1, "\n\n"], 2, [0, 1]),
        "comment_and_id_lines": ([": keepalive\nid: 7\nevent: message\ndata: ", 0, "\n\n"], 1, [0]),
        "other_event_type_is_not_a_message": (["event: ping\ndata: ", 0, "\n\n"], 1, []),
        "no_event_field": (["data: ", 0, "\n\n"], 1, [0]),
        # a typed event without data ends at its blank line: the next event starts with the default type again
        "dataless_typed_event_then_untyped_event": (["event: ping\n\ndata: ", 0, "\n\n"], 1, [0]),
        # thorough tier only
        "three_events_mixed_line_ends": (["event: message\r\ndata: ", 0, "\r\n\r\nevent: message\ndata: ", 1,
                                          "\n\n: c\nevent: message\ndata: ", 2, "\n\n"], 3, [0, 1, 2]),
        "response_event_type": (["event: response\ndata: ", 0, "\n\n"], 1, [0]),
        "retry_and_unknown_fields": (["retry: 10\nfoo: bar\nevent: message\ndata: ", 0, "\n\n"], 1, [0]),
        "no_space_after_data_colon": (["event: message\ndata:", 0, "\n\n"], 1, [0]),
    }
    FINDING = {}        # both former findings (no event field, no space after `data:`) were repaired in /repo

    def __init__(self, shape):
        self.shape = shape

    def name(self, clause):
        return f"C11._process_sse_text.{clause}[{self.shape}]"

    def setup(self, I):
        I.c11 = self
        tcd = I.ctx.repo_class(I.ctx.repo.klass(f"{HTTP}::StreamableHTTPTransport"))
        self.incoming = E.make_write_stream(I, "incoming")
        self.transport = I.new_object(tcd, {"_pending_requests": V.VDict([]), "_incoming_send": self.incoming})
        tmpl, n, self.expected = self.SHAPES[self.shape]
        self.payloads = []
        for k in range(n):
            j = I.fresh(f"payload{k}", S)
            # one-line JSON text of a routable JSON-RPC message
            I.assume(z3.And(z3.PrefixOf(K("{"), j), z3.SuffixOf(K("}"), j), z3.Not(z3.Contains(j, K("\n"))),
                            z3.Not(z3.Contains(j, K("\r"))), z3.Length(j) >= 2, ST.json_ok(j)))
            d = ST.json_val(j)
            I.assume(routable(d))
            I.assume(z3.Implies(V.is_dict(d), Val.dsize(d) >= 0))
            self.payloads.append(j)
        parts = [K(p) if isinstance(p, str) else self.payloads[p] for p in tmpl]
        text = z3.Concat(*parts) if len(parts) > 1 else parts[0]
        mid = I.fresh("message_id")
        I.assume(z3.Or(V.is_none(mid), V.is_int(mid), V.is_str(mid)))
        return [self.transport, V.VStr(text), mid], {}

    def post(self, I, result):
        w = Val.items(E.gfield(I, self.incoming, "attempted"))
        n = z3.simplify(z3.Length(w))
        want = [ST.json_val(self.payloads[k]) for k in self.expected]
        ok = z3.BoolVal(z3.is_int_value(n) and n.as_long() == len(want))
        if z3.is_int_value(n) and n.as_long() == len(want):
            conds = []
            for k, d in enumerate(want):
                m = z3.simplify(w[k])
                for f in ("id", "method", "params", "result", "error"):
                    v, h = I.get_field(m, f)
                    conds.append(z3.If(h, v, V.NONE) == z3.If(has(d, f), val(d, f), V.NONE))
            ok = z3.And(conds) if conds else z3.BoolVal(True)
        cls = self.FINDING.get(self.shape)
        kw = {"classes": {cls: z3.BoolVal(True)}} if cls else {}
        I.oblige(self.name("delivers_exactly_the_messages_of_the_body_in_order"), ok, **kw)

    def post_exc(self, I, e):
        I.oblige(self.name(f"never_raises[{e.cls_name}]"), z3.BoolVal(e.cls_name == "CancelledError"))


_c11_contracts = C11.contracts


THOROUGH_SHAPES = ("three_events_mixed_line_ends", "response_event_type", "retry_and_unknown_fields")


def _contracts11(self):
    shapes = [s for s in SseText.SHAPES if s not in THOROUGH_SHAPES or self.tier == "thorough"]
    return _c11_contracts(self) + [SseText(s) for s in shapes]


C11.contracts = _contracts11
C11.title = ("_send_message_internal proved against a case postcondition over an arbitrary httpx answer (status, headers, "
             "body, timeout, exception) for requests and notifications; _route_response, the sender loop and the "
             "session-id bookkeeping proved; SSE bodies proved shape by shape (canonical LF/CRLF, several events, comment "
             "and id lines, foreign event types) for arbitrary one-line JSON payloads; five clauses fail and are listed "
             "known findings")
C11.trusted = [t for t in C11.trusted if "havoc contract" not in t] + [
    "inside _send_message_internal the SSE branch is used through a havoc contract; _process_sse_text itself is verified "
    "per body shape (a finite list of spec-conformant shapes x all payloads), not against the full WHATWG grammar",
    "prelude lemmas: split of a concatenation whose symbolic parts contain no separator; strip() is the identity on a "
    "string that starts with '{' and ends with '}'"]
CHECK = C11()
