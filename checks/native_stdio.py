"""Bounded native searches for the stdio and codec properties (C05, C06, C17).

Used (a) after a failed obligation whose counter-model cannot be concretised, to look for a concrete failing input on the
real code ("bounded concrete search around it", DESIGN.md section 4) and (b) as bounded stand-ins when a function leaves
the interpreted subset.  Every search imports the code of the tree under verification (sys.path[0] = $VERIF_REPO/src),
runs the REAL function against an oracle written from the property text, and states its bound.  A failing input is a real
failing run; a pass is bounded and never counted as proved."""
from __future__ import annotations

import codecs
import importlib
import itertools
import json
import logging
import types


def _quiet():
    logging.disable(logging.CRITICAL)


def _client():
    sc = importlib.import_module("chuk_mcp.transports.stdio.stdio_client")
    pm = importlib.import_module("chuk_mcp.transports.stdio.parameters")
    return sc.StdioClient(pm.StdioParameters(command="true", args=[])), sc


# ------------------------------------------------------------------------------------------------ C05: reader
class _Stdout:
    def __init__(self, chunks):
        self.chunks = list(chunks)

    def __aiter__(self):
        return self

    async def __anext__(self):
        if not self.chunks:
            raise StopAsyncIteration
        return self.chunks.pop(0)


def _oracle_docs(stream: bytes):
    """J(complete lines of utf8_inc(stream)): the documents a reader must hand on, a function of the bytes alone"""
    text = codecs.getincrementaldecoder("utf-8")(errors="replace").decode(stream, final=False)
    out = []
    for line in text.split("\n")[:-1]:
        line = line.strip()
        if not line:
            continue
        try:
            out.append(json.loads(line))
        except ValueError:
            pass
    return out


C05_STREAMS = [
    b'{"jsonrpc":"2.0","id":1,"result":{}}\n{"jsonrpc":"2.0","method":"n"}\n',
    b'{"jsonrpc":"2.0","id":1,"result":{"t":"caf\xc3\xa9 \xe2\x82\xac"}}\n{"jsonrpc":"2.0","id":2,"result":{}}\n',
    b'{"a": 1,  "b": "x  y"}\n{"c":   [1, 2]}\n',
    b'log line, not json\n{"jsonrpc":"2.0","id":3,"result":{}}\n\n  \n{"jsonrpc":"2.0","id":4,"result":{}}\r\n',
    b'{"jsonrpc":"2.0","id":5,"result":{}}\n{"jsonrpc":"2.0","id":6,"res',
    b'{"k":"v"} \n {"k2":"v2"}\n',
    b'{"t":"a\xe2\x80\xa8b\xc2\x85c\xe2\x80\xa9"}\n{"u":1}\n',          # U+2028 / U+0085 / U+2029 raw inside a JSON string
    b'{"a":1}\n\xc3\xa9x\n{"c":3}\n',                                  # a junk line starting with a multi-byte character
]


def run_reader(chunks):
    import anyio
    _quiet()
    client, _sc = _client()
    client._streams_initialized = True
    got = []

    async def record(data):
        got.append(data)
    client._process_message_data = record
    client.process = types.SimpleNamespace(stdout=_Stdout(chunks), stdin=None)
    anyio.run(client._stdout_reader)
    return got


def search_c05(tier="quick"):
    cuts_max = 3 if tier == "thorough" else 2
    n = 0
    for stream in C05_STREAMS:
        want = _oracle_docs(stream)
        positions = range(1, len(stream))
        for k in range(0, (cuts_max + 1 if len(stream) <= 28 else cuts_max) + 1):
            combos = itertools.combinations(positions, k)
            if k == cuts_max and len(stream) > 40 and tier != "thorough":
                combos = itertools.combinations(range(1, len(stream), 3), k)
            for cuts in combos:
                idx = [0, *cuts, len(stream)]
                chunks = [stream[a:b] for a, b in zip(idx, idx[1:])]
                n += 1
                try:
                    got = run_reader(chunks)
                except BaseException as ex:      # noqa: BLE001 - the reader must never die
                    return dict(reproduced=True, input=dict(chunks=[c.decode("latin-1") for c in chunks]),
                                observed=f"{type(ex).__name__}: {ex}", required=f"documents {want}")
                if got != want:
                    return dict(reproduced=True, input=dict(chunks=[repr(c) for c in chunks]), observed=f"documents {got}",
                                required=f"documents {want} (a function of the concatenated bytes alone)", cases=n)
    return dict(reproduced=False, cases=n,
                bound=f"{len(C05_STREAMS)} byte streams x every chunking with <= {cuts_max} cut points ({cuts_max + 1} for streams of <= 28 bytes) (bounded, not a proof)")


# ------------------------------------------------------------------------------------------------ C06: writer
class _Stdin:
    def __init__(self):
        self.writes, self.closed = [], False

    async def send(self, data):
        self.writes.append(data)

    async def aclose(self):
        self.closed = True


class _DumpOnly:
    """a message object that only offers model_dump"""
    def __init__(self, d):
        self._d = d
        self.method = d.get("method")
        self.id = d.get("id")

    def model_dump(self, **kw):
        if kw != {"exclude_none": True}:
            raise AssertionError(f"dump options {kw}")
        return {k: v for k, v in self._d.items() if v is not None}


class _Unserialisable:
    pass


def _c06_messages():
    """(label, message object, expected wire value or None when it is computed from the message itself): the expected
    value of a typed message is written down here, independently of the library's own dump"""
    jm = importlib.import_module("chuk_mcp.protocol.messages.json_rpc_message")
    nested = {"name": "t", "arguments": {"assignee": None, "deep": {"n": None, "l": [None, 1]}}}
    return [
        ("typed request", jm.create_request("tools/call", {"name": "t", "arguments": {"s": "a\nb\r c"}}, id=7),
         {"jsonrpc": "2.0", "id": 7, "method": "tools/call", "params": {"name": "t", "arguments": {"s": "a\nb\r c"}}}),
        ("typed notification", jm.create_notification("notifications/initialized", None), "any-notification"),
        ("typed request with explicit nested nulls", jm.create_request("tools/call", nested, id="n-1"),
         {"jsonrpc": "2.0", "id": "n-1", "method": "tools/call", "params": nested}),
        ("typed response with explicit nested nulls", jm.create_response(8, {"value": None, "o": {"n": None}}),
         {"jsonrpc": "2.0", "id": 8, "result": {"value": None, "o": {"n": None}}}),
        ("typed response", jm.create_response(0, {"text": "caf\u00e9 \U0001f600"}),
         {"jsonrpc": "2.0", "id": 0, "result": {"text": "caf\u00e9 \U0001f600"}}),
        ("typed error", jm.create_error_response("x", -32601, "nope"),
         {"jsonrpc": "2.0", "id": "x", "error": {"code": -32601, "message": "nope"}}),
        ("plain dict", {"jsonrpc": "2.0", "id": 3, "method": "ping", "params": {"nl": "line1\nline2", "nul": "\u0000"}}, None),
        ("plain dict big int", {"jsonrpc": "2.0", "id": 2 ** 64 - 1, "method": "ping"}, None),
        ("dump-only object", _DumpOnly({"jsonrpc": "2.0", "id": 9, "method": "m", "params": None}), None),
        ("raw string", '{"jsonrpc":"2.0","id":4,"method":"ping"}', None),
        ("raw pretty string", '{\n  "jsonrpc": "2.0",\r\n  "id": 5,\n  "method": "ping"\n}', None),
        ("raw string with unicode line separators inside a JSON string",
         '{"jsonrpc":"2.0","id":8,"method":"m","params":{"t":"a\u2028b\u0085c\u2029d"}}', None),
        ("typed message relying on class defaults", jm.JSONRPCMessage(id=11, method="ping"), {"jsonrpc": "2.0", "id": 11, "method": "ping"}),
        ("typed response built directly", jm.JSONRPCMessage(id=12, result={"ok": True}), {"jsonrpc": "2.0", "id": 12, "result": {"ok": True}}),
        ("unserialisable", _Unserialisable(), None),
        ("dict with unserialisable value", {"jsonrpc": "2.0", "id": 6, "method": "m", "params": {"x": _Unserialisable()}}, None),
    ]


def _c06_expected(label, m, given=None):
    """the JSON value the single line must decode to, or None when nothing may be written for this message"""
    if given is not None:
        return given
    if isinstance(m, str):
        try:
            return json.loads(m)
        except ValueError:
            return "raw"
    if isinstance(m, dict):
        try:
            return json.loads(json.dumps(m))
        except (TypeError, ValueError):
            return None
    if hasattr(m, "model_dump"):
        try:
            return json.loads(json.dumps(m.model_dump(exclude_none=True)))
        except (TypeError, ValueError):
            return None
    return None


def run_writer(messages):
    import anyio
    _quiet()
    client, _sc = _client()
    client._streams_initialized = True
    stdin = _Stdin()

    async def main():
        send, recv = anyio.create_memory_object_stream(len(messages) + 1)
        client._outgoing_recv = recv
        client.process = types.SimpleNamespace(stdin=stdin, stdout=None)
        for m in messages:
            send.send_nowait(m)
        send.close()
        await client._stdin_writer()
    anyio.run(main)
    return stdin


def search_c06(tier="quick"):
    msgs = _c06_messages()
    n = 0
    bad = next(i for i, t in enumerate(msgs) if t[0] == "unserialisable")
    orders = [list(range(len(msgs)))] + [[i] for i in range(len(msgs))] + [[bad, i] for i in range(len(msgs))]
    if tier == "thorough":
        orders += [list(p) for p in itertools.permutations(range(len(msgs)), 2)]
    for order in orders:
        batch = [msgs[i] for i in order]
        n += 1
        try:
            stdin = run_writer([m for _l, m, _e in batch])
        except BaseException as ex:     # noqa: BLE001
            return dict(reproduced=True, input=[l for l, _m, _e in batch], observed=f"{type(ex).__name__}: {ex}",
                        required="the writer survives every message")
        expected = [(l, _c06_expected(l, m, e)) for l, m, e in batch]
        expected = [(l, e) for l, e in expected if e is not None]
        if len(stdin.writes) != len(expected):
            return dict(reproduced=True, input=[l for l, _m, _e in batch], observed=f"{len(stdin.writes)} writes: {stdin.writes!r}"[:600],
                        required=f"exactly one line for each of {[l for l, _e in expected]}")
        for w, (l, e) in zip(stdin.writes, expected):
            ok = isinstance(w, bytes) and w.endswith(b"\n") and b"\n" not in w[:-1] and b"\r" not in w[:-1]
            if ok and e == "any-notification":
                try:
                    d = json.loads(w.decode("utf-8"))
                    ok = d.get("jsonrpc") == "2.0" and d.get("method") == "notifications/initialized" and "id" not in d
                except ValueError:
                    ok = False
            elif ok and e != "raw":
                try:
                    ok = json.loads(w.decode("utf-8")) == e
                except ValueError:
                    ok = False
            if not ok:
                return dict(reproduced=True, input=l, observed=repr(w)[:400],
                            required=f"one utf-8 line + '\\n' without a raw line break that decodes to {e!r}"[:400])
        if not stdin.closed:
            return dict(reproduced=True, input=[l for l, _m, _e in batch], observed="stdin left open",
                        required="stdin closed when the write stream ends")
    return dict(reproduced=False, cases=n, bound=f"{len(msgs)} message shapes, {n} sequences of them (bounded, not a proof)")


# ------------------------------------------------------------------------------------------------ C17: codec
C17_VALUES = [
    None, True, 0, -1, 2 ** 53 + 1, 2 ** 63 - 1, 2 ** 63, 2 ** 64 - 1, -2 ** 63, 1.5, -0.0, 1e308, 5e-324, "", "a\nb", "\r\n  \x85\x0b\x0c\x1c", "café", "\U0001f600",
    "\ud800", [], {}, [1, [2, [3, {"k": None}]]], {"a": {"b": {"c": [1, 2.5, "x\ny", None, True]}}}, {"": ""},
    {"jsonrpc": "2.0", "id": 2 ** 64 - 1, "result": {"n": -2 ** 63}}, {"\u00e9\u2028": "\u2029\u0085"}, {1: "int key"}, {"t": (1, 2)},
]


def search_c17(tier="quick"):
    _quiet()
    fj = importlib.import_module("chuk_mcp.protocol.fast_json")
    n = 0
    have = bool(getattr(fj, "HAS_ORJSON", False))
    modes = [True, False] if have else [False]
    saved = fj.HAS_ORJSON
    try:
        texts = {}
        for v in C17_VALUES:
            try:
                ref = json.dumps(v, separators=(",", ":"))
            except (TypeError, ValueError):
                ref = None
            for mode in modes:
                fj.HAS_ORJSON = mode
                n += 1
                try:
                    t = fj.dumps(v)
                except Exception as ex:      # noqa: BLE001
                    if ref is not None:
                        return dict(reproduced=True, input=repr(v), observed=f"dumps raised {type(ex).__name__}: {ex} (orjson={mode})",
                                    required="the stdlib can encode it, so dumps must")
                    continue
                if not isinstance(t, str) or "\n" in t or "\r" in t:
                    return dict(reproduced=True, input=repr(v), observed=repr(t)[:300] + f" (orjson={mode})",
                                required="one text without a raw line break")
                texts[(repr(v), mode)] = t
                for mode2 in modes:
                    fj.HAS_ORJSON = mode2
                    n += 1
                    try:
                        back = fj.loads(t)
                        back_b = fj.loads(t.encode("utf-8"))
                    except Exception as ex:      # noqa: BLE001
                        return dict(reproduced=True, input=repr(v), observed=f"loads({t!r}) raised {type(ex).__name__} (orjson={mode2})",
                                    required="every backend decodes what every backend encoded")
                    want = json.loads(t)
                    if repr(back) != repr(want) or repr(back_b) != repr(want):
                        return dict(reproduced=True, input=repr(v), observed=f"{back!r} / {back_b!r} (enc orjson={mode}, dec orjson={mode2})",
                                    required=repr(want))
            if have and ref is not None and (repr(v), True) in texts and (repr(v), False) in texts:
                if repr(json.loads(texts[(repr(v), True)])) != repr(json.loads(texts[(repr(v), False)])):
                    return dict(reproduced=True, input=repr(v), observed=f"{texts[(repr(v), True)]!r} vs {texts[(repr(v), False)]!r}",
                                required="both backends encode the same value")
        # documents only the stdlib accepts must still load when the fast backend refuses them
        for doc in [' {"a":\t1}\n', '[18446744073709551615, -9223372036854775808]', '{"k": [[[[[[[[[[1]]]]]]]]]]}',
                    "[" * 300 + "]" * 300]:
            for mode in modes:
                fj.HAS_ORJSON = mode
                n += 1
                try:
                    want = json.loads(doc)
                except ValueError:
                    continue
                try:
                    got = fj.loads(doc)
                except Exception as ex:      # noqa: BLE001
                    return dict(reproduced=True, input=doc, observed=f"loads raised {type(ex).__name__}: {ex} (orjson={mode})",
                                required=f"{want!r} (the stdlib parses it)")
                if repr(got) != repr(want):
                    return dict(reproduced=True, input=doc, observed=repr(got), required=repr(want))
    finally:
        fj.HAS_ORJSON = saved
    return dict(reproduced=False, cases=n, bound=f"{len(C17_VALUES)} values x backend pairs {modes} (bounded, not a proof)")


# ------------------------------------------------------------------------------------------------ C13 / C18: routing
async def _routing_client(version):
    import anyio
    client, _sc = _client()
    client._notify_send, client.notifications = anyio.create_memory_object_stream(100)
    client._incoming_send, client._incoming_recv = anyio.create_memory_object_stream(10000)
    client._outgoing_send, client._outgoing_recv = anyio.create_memory_object_stream(100)
    client._streams_initialized = True
    client.process = types.SimpleNamespace(stdin=_Stdin(), stdout=None)
    if version is not None:
        client.set_protocol_version(version)
    return client


def _drain(recv):
    import anyio
    out = []
    while True:
        try:
            out.append(recv.receive_nowait())
        except (anyio.WouldBlock, anyio.EndOfStream, anyio.ClosedResourceError):
            return out


def _wire(m):
    return dict(id=getattr(m, "id", None), method=getattr(m, "method", None), result=getattr(m, "result", None),
                error=getattr(m, "error", None))


def search_c13_transport(tier="quick"):
    """_process_message_data / _route_message of the real StdioClient: batch rejection exactly at versions without
    batching, every valid member delivered in order, an invalid member dropped alone; every message offered to the
    shared read stream exactly once (also the 150th notification), to a per-request stream only under its own id."""
    import anyio
    _quiet()
    n = 0
    resp = lambda i: {"jsonrpc": "2.0", "id": i, "result": {"k": i}}      # noqa: E731
    note = lambda k: {"jsonrpc": "2.0", "method": "notifications/message", "params": {"k": k}}      # noqa: E731
    bad = {"jsonrpc": "2.0", "id": 99, "result": {}, "error": {"code": 1, "message": "both"}}
    batches = [[resp(1), note(1), resp(2)], [note(1), bad, resp(3)], [bad, resp(4)], [resp(5), "junk", 7, None, resp(6)], [bad], []]
    for version in (None, "2024-11-05", "2025-03-26", "2025-06-18", "2025-11-25"):
        batching = version is None or version < "2025-06-18"
        for batch in batches:
            n += 1

            async def run():
                c = await _routing_client(version)
                await c._process_message_data(batch)
                return _drain(c._incoming_recv), c.process.stdin.writes
            try:
                got, writes = anyio.run(run)
            except BaseException as ex:      # noqa: BLE001
                return dict(reproduced=True, input=dict(version=version, batch=batch), observed=f"{type(ex).__name__}: {ex}", required="never raises")
            valid = [m for m in batch if isinstance(m, dict) and m is not bad]
            want = [dict(id=m.get("id"), method=m.get("method"), result=m.get("result"), error=m.get("error")) for m in valid]
            if batching:
                if [_wire(m) for m in got] != want or writes:
                    return dict(reproduced=True, input=dict(version=version, batch=batch), observed=f"delivered {[_wire(m) for m in got]}, wrote {writes}"[:600],
                                required=f"every valid member in order {want}, nothing written back"[:600])
            else:
                errs = []
                for w in writes:
                    try:
                        errs.append(json.loads(w.decode()))
                    except ValueError:
                        errs.append(None)
                ok = not got and len(errs) == 1 and isinstance(errs[0], dict) and (errs[0].get("error") or {}).get("code") == -32600
                if batch == []:
                    ok = ok or (not got)
                if not ok:
                    return dict(reproduced=True, input=dict(version=version, batch=batch), observed=f"delivered {[_wire(m) for m in got]}, wrote {writes}"[:600],
                                required="a batch at a version without batching: nothing delivered, exactly one -32600 error written")
    # single messages and the notification side channel under load
    total = 400 if tier == "thorough" else 150

    async def flood():
        c = await _routing_client("2025-06-18")
        for k in range(total):
            await c._process_message_data(note(k))
            if k % 3 == 2:
                await c._process_message_data(resp(k))
        return _drain(c._incoming_recv)
    n += 1
    got = anyio.run(flood)
    want = []
    for k in range(total):
        want.append(("n", k))
        if k % 3 == 2:
            want.append(("r", k))
    seen = [("n", m.params["k"]) if getattr(m, "method", None) else ("r", m.id) for m in got]
    if seen != want:
        first = next((i for i, (a, b) in enumerate(zip(seen, want)) if a != b), min(len(seen), len(want)))
        return dict(reproduced=True, input=f"{total} notifications interleaved with responses, nobody reading the notification side channel",
                    observed=f"{len(seen)} messages on the read stream, first difference at position {first}: {seen[first:first + 3]}",
                    required=f"all {len(want)} messages in order on the read stream ({want[first:first + 3]} at that position)")
    # per-request table: only its own id; the shared stream always
    for pending_ids, incoming_id in itertools.product((["a"], ["a", "b"], []), ("a", "zzz", 5)):
        n += 1

        async def legacy():
            c = await _routing_client(None)
            streams = {i: c.new_request_stream(i) for i in pending_ids}
            await c._process_message_data(resp(incoming_id))
            return _drain(c._incoming_recv), {i: _drain(s) for i, s in streams.items()}
        main, per = anyio.run(legacy)
        for i, msgs in per.items():
            if any(str(getattr(m, "id", None)) != i for m in msgs):
                return dict(reproduced=True, input=dict(pending=pending_ids, incoming_response_id=incoming_id),
                            observed=f"request stream {i!r} received {[_wire(m) for m in msgs]}", required="only a message bearing its own id")
        if str(incoming_id) in pending_ids and len(per[str(incoming_id)]) != 1:
            return dict(reproduced=True, input=dict(registered_in_order=pending_ids, incoming_response_id=incoming_id),
                        observed=f"the stream registered under {incoming_id!r} received {len(per[str(incoming_id)])} message(s)",
                        required="a waiter registered under the response's id receives it (no lost responses)")
        if len(main) != 1:
            return dict(reproduced=True, input=dict(pending=pending_ids, incoming_response_id=incoming_id),
                        observed=f"read stream got {len(main)} message(s)", required="offered to the shared read stream exactly once")
    return dict(reproduced=False, cases=n, bound=f"5 versions x 6 batches; {total} interleaved notifications; 9 per-request table situations (bounded, not a proof)")
