"""C04 - a library server never acknowledges a protocol version it does not support."""
from __future__ import annotations

import ast

import z3

from pyvc import vals as V
from pyvc.vals import Val
from pyvc import envs as E
from pyvc.check import Check, Canary, Lemma
from pyvc.verify import Contract
from pyvc.loader import Repo
from checks import server as S
from checks.server import PH, Resp, pair

VERSIONING = "src/chuk_mcp/protocol/types/versioning.py"


def supported_versions(repo: Repo):
    mi = repo.load_path(VERSIONING)
    return list(ast.literal_eval(mi.constants["SUPPORTED_VERSIONS"]))


class HandleInitialize(Contract):
    key = f"{PH}::ProtocolHandler._handle_initialize"
    prop = "C04"

    def setup(self, I):
        self.ph = S.make_protocol_handler(I)
        self.msg, self.mid, self.method, self.params = S.make_message(I, "request")
        self.supported = supported_versions(I.ctx.repo)
        sid = I.fresh("session_id")
        I.assume(z3.Or(V.is_none(sid), V.is_str(sid)))
        return [self.ph, self.msg, sid], {}

    def requested(self):
        p = self.params
        k = z3.StringVal("protocolVersion")
        return z3.If(z3.And(V.is_dict(p), z3.Select(Val.dkeys(p), k)), z3.Select(Val.dvals(p), k), V.NONE), \
            z3.And(V.is_dict(p), z3.Select(Val.dkeys(p), k))

    def post(self, I, result):
        ok, first, new_sid = pair(result)
        r = Resp(I, first)
        res, hr = r.f("result")
        answered = z3.Select(Val.dvals(res), z3.StringVal("protocolVersion"))
        req, present = self.requested()
        sup = [V.VStr(v) for v in self.supported]
        in_sup = lambda x: z3.Or([x == s for s in sup])
        watch = {"params": self.params, "answered": answered}
        I.oblige(self.name("answers_with_a_result_carrying_the_request_id"),
                 z3.And(ok, r.has_id(self.mid), r.is_result(), V.is_dict(res),
                        z3.Select(Val.dkeys(res), z3.StringVal("protocolVersion"))), watch=watch)
        I.oblige(self.name("answered_version_is_supported_by_the_server"), in_sup(answered), watch=watch)
        I.oblige(self.name("supported_request_is_answered_with_the_requested_version"),
                 z3.Implies(z3.And(present, in_sup(req)), answered == req), watch=watch)
        # the session that was recorded carries the answered version and the client's info
        sessions, _ = I.get_field(I.ph_parts["session_manager"], "sessions")
        rec = z3.Select(Val.dvals(sessions), Val.s(new_sid))
        o = Val.oid(rec)
        pv = z3.Select(I.st.field("protocol_version")[0], o)
        ci = z3.Select(I.st.field("client_info")[0], o)
        kci = z3.StringVal("clientInfo")
        p = self.params
        want_ci_present = z3.And(V.is_dict(p), z3.Select(Val.dkeys(p), kci))
        I.oblige(self.name("exactly_the_answered_version_is_recorded_in_the_new_session"),
                 z3.And(V.is_str(new_sid), z3.Select(Val.dkeys(sessions), Val.s(new_sid)), V.is_obj(rec),
                        pv == answered), watch=watch)
        I.oblige(self.name("session_records_the_clients_info"),
                 z3.Implies(want_ci_present, ci == z3.Select(Val.dvals(p), kci)), watch=watch)
        old = I.ph_parts["sessions"]
        q = I.fresh("otherkey", z3.StringSort())
        I.oblige(self.name("other_sessions_untouched"),
                 z3.Implies(q != Val.s(new_sid),
                            z3.And(z3.Select(Val.dkeys(sessions), q) == z3.Select(Val.dkeys(old), q),
                                   z3.Select(Val.dvals(sessions), q) == z3.Select(Val.dvals(old), q))))

    def post_exc(self, I, e):
        # malformed params (a JSON value that is not an object) may make the handler raise: the dispatcher answers
        # -32603 (C08).  For object/absent params the handler must not fail.
        p = self.params
        I.oblige(self.name(f"object_or_absent_params_never_fail[{e.cls_name.split('.')[-1]}]"),
                 z3.Not(z3.Or(V.is_none(p), V.is_dict(p))), watch={"params": p})


def lemma_handshake():
    """C03's client postcondition composed with this server postcondition: every pairing ends agreed on a version
    both sides support, or with VersionMismatchError on the client.  (pure lemma over the two contracts)"""
    a = z3.String("answered")
    in_server = z3.Bool("answered_in_server_list")        # C04: answered_version_is_supported_by_the_server
    in_client = z3.Bool("answered_in_client_list")
    client_success = z3.Bool("client_success")
    client_mismatch = z3.Bool("client_mismatch")
    asm = [in_server,                                      # C04 postcondition
           z3.Implies(client_success, in_client),          # C03: success only with a version from the caller's list
           z3.Implies(z3.Not(in_client), client_mismatch),  # C03: any other answer raises VersionMismatchError
           z3.Or(client_success, client_mismatch)]         # the server answered, so the client decided
    return asm, z3.Or(z3.And(client_success, in_client, in_server), client_mismatch)


class C04(Check):
    prop = "C04"
    level = "proof"
    title = ("_handle_initialize proved for every params value: answered version in SUPPORTED_VERSIONS (read from "
             "versioning.py), equal to the requested one when supported, recorded in the new session")
    design_ref = "section 7, C04"
    trusted = ["uuid4/session id generation as in C19; pydantic per pyvc.pyd",
               "the end-to-end statement is a lemma over C03's and C04's postconditions, not a joint run"]

    def install(self, ctx):
        S.install(ctx)
        from checks import C03
        C03.CHECK.install(ctx)

    def modular(self):
        from checks import C03
        return C03.CHECK.modular()

    def contracts(self):
        # the end-to-end clause ("a library client talking to a library server ends agreed on a version both support, or
        # with a version-mismatch error") is a lemma over the server contract and the CLIENT contract: the client side
        # (C03.SendInitialize: success only with an answered version from the caller's own list) is re-verified here
        from checks import C03
        return [HandleInitialize(), C03.SendInitialize("given", "given"), C03.SendInitialize("given", "none"),
                C03.SendInitialize("default", "none")]

    def lemmas(self):
        return [Lemma("C04.lemma.handshake_ends_agreed_or_with_mismatch", lemma_handshake)]

    def canaries(self):
        return [
            Canary("echo the requested version", PH,
                   "        if protocol_version not in SUPPORTED_VERSIONS:\n", "        if False:\n", "answered_version_is_supported"),
            Canary("session records the requested rather than the answered version", PH,
                   "        protocol_version = params.get(\"protocolVersion\", \"2025-03-26\")\n",
                   "        protocol_version = params.get(\"protocolVersion\", \"2025-03-26\")\n"
                   "        new_session_id = self.session_manager.create_session(client_info, protocol_version)\n"
                   "        if protocol_version not in SUPPORTED_VERSIONS:\n            protocol_version = CURRENT_VERSION\n"
                   "        result = {\"protocolVersion\": protocol_version, \"serverInfo\": self.server_info.model_dump(),\n"
                   "                  \"capabilities\": self.capabilities.model_dump(exclude_none=True)}\n"
                   "        return self.create_response(getattr(message, \"id\", None), result), new_session_id\n",
                   "recorded_in_the_new_session"),
            Canary("range test instead of membership", PH, "        if protocol_version not in SUPPORTED_VERSIONS:\n",
                   "        if not (isinstance(protocol_version, str) and \"2024-11-05\" <= protocol_version <= \"2025-06-18\"):\n",
                   "answered_version_is_supported"),
            Canary("always answers the current version", PH, "        if protocol_version not in SUPPORTED_VERSIONS:\n",
                   "        if True:\n", "supported_request_is_answered"),
        ]

    def replay(self, name, model, rec):
        from checks import replay_server
        return replay_server.replay_c04(name, model, rec)

    def bounded_stand_in(self, tier, undecided):
        if not any("protocol_handler.py::ProtocolHandler._handle_initialize" in u for u in undecided):
            return []
        from checks import replay_server
        r = replay_server.c04_grid(tier)
        r["name"] = "handle_initialize"
        if not r.get("reproduced"):
            r["covers"] = "protocol_handler.py::ProtocolHandler._handle_initialize"
        return [r]


CHECK = C04()
