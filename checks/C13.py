"""C13 - batches are accepted exactly for protocol versions older than 2025-06-18."""
from __future__ import annotations

import z3

from pyvc import vals as V
from pyvc.vals import Val
from pyvc import prelude as P
from pyvc import envs as E
from pyvc.check import Check, Canary, Lemma, AuditResult
from pyvc.verify import Contract

BATCHING = "src/chuk_mcp/protocol/features/batching.py"
VERSIONING = "src/chuk_mcp/protocol/types/versioning.py"
CUTOFF = "2025-06-18"


def dated_version(I, tag="v"):
    """A version of shape dddd-dd-dd over eight symbolic ASCII digits: all 10^8 such strings."""
    ds = [I.fresh_int(f"{tag}d{k}") for k in range(8)]
    for d in ds:
        I.assume(z3.And(d >= 0, d <= 9))
    codes = [48 + d for d in ds]
    chars = codes[:4] + ["-"] + codes[4:6] + ["-"] + codes[6:8]
    return V.VStr(P.from_chars(chars)), chars


def older(chars):
    """Oracle from the property text: v is older than the cutoff (code-point order == date order on this shape)."""
    return P.chars_lt(chars, list(CUTOFF), True)


class VersionModes:
    """mode in {'dated', 'none', 'empty'}: the version inputs the property quantifies over."""

    def version(self, I):
        if self.mode == "dated":
            v, chars = dated_version(I)
            self.expect = older(chars)
        elif self.mode == "none":
            v, self.expect = V.NONE, z3.BoolVal(True)
        else:
            v, self.expect = V.VStr(""), z3.BoolVal(True)
        self.v = v
        return v


class SupportsBatching(Contract, VersionModes):
    key = f"{BATCHING}::supports_batching"
    prop = "C13"

    def __init__(self, mode):
        self.mode = mode

    def setup(self, I):
        return [self.version(I)], {}

    def post(self, I, result):
        I.oblige(self.name(f"result_iff_older_than_cutoff[{self.mode}]"), result == V.VBool(self.expect),
                 watch={"version": self.v, "result": result})


class SupportsBatchingTotal(Contract):
    """For every str (any content) or None the decision function returns a bool and never raises."""
    key = f"{BATCHING}::supports_batching"
    prop = "C13"

    def setup(self, I):
        v = I.fresh("anyversion")
        I.assume(z3.Or(V.is_none(v), V.is_str(v)))
        self.v = v
        return [v], {}

    def post(self, I, result):
        I.oblige(self.name("total_returns_bool[any str or None]"), V.is_bool(result), watch={"version": self.v})


class ShouldRejectBatch(Contract, VersionModes):
    key = f"{BATCHING}::should_reject_batch"
    prop = "C13"

    def __init__(self, mode):
        self.mode = mode

    def setup(self, I):
        self.data = I.fresh("message_data")
        return [self.version(I), self.data], {}

    def post(self, I, result):
        want = z3.And(V.is_list(self.data), z3.Not(self.expect))
        I.oblige(self.name(f"rejects_iff_batch_and_not_older[{self.mode}]"), result == V.VBool(want),
                 watch={"version": self.v, "data": self.data})


def processor_object(I, version, enabled):
    cd = I.ctx.repo_class(I.ctx.repo.klass(f"{BATCHING}::BatchProcessor"))
    return I.new_object(cd, {"protocol_version": version, "batching_enabled": enabled})


class ProcessorInit(Contract, VersionModes):
    """Class invariant established: batching_enabled == supports_batching(protocol_version)."""
    key = f"{BATCHING}::BatchProcessor.__init__"
    prop = "C13"

    def __init__(self, mode):
        self.mode = mode

    def setup(self, I):
        cd = I.ctx.repo_class(I.ctx.repo.klass(f"{BATCHING}::BatchProcessor"))
        self.obj = I.new_object(cd)
        return [self.obj, self.version(I)], {}

    def post(self, I, result):
        en, has = I.get_field(self.obj, "batching_enabled")
        pv, hasv = I.get_field(self.obj, "protocol_version")
        I.oblige(self.name(f"invariant_established[{self.mode}]"),
                 z3.And(has, hasv, en == V.VBool(self.expect), pv == self.v), watch={"version": self.v})


class ProcessorUpdate(Contract, VersionModes):
    """Invariant preserved by update_protocol_version from ANY prior state (so a version change in the
    middle of a connection is covered)."""
    key = f"{BATCHING}::BatchProcessor.update_protocol_version"
    prop = "C13"

    def __init__(self, mode):
        self.mode = mode

    def setup(self, I):
        old_v = I.fresh("old_version")
        old_en = I.fresh("old_enabled")
        I.assume(V.is_bool(old_en))
        self.obj = processor_object(I, old_v, old_en)
        return [self.obj, self.version(I)], {}

    def post(self, I, result):
        en, has = I.get_field(self.obj, "batching_enabled")
        pv, hasv = I.get_field(self.obj, "protocol_version")
        I.oblige(self.name(f"invariant_preserved[{self.mode}]"),
                 z3.And(has, hasv, en == V.VBool(self.expect), pv == self.v), watch={"version": self.v})


class CanProcessBatch(Contract, VersionModes):
    key = f"{BATCHING}::BatchProcessor.can_process_batch"
    prop = "C13"

    def __init__(self, mode):
        self.mode = mode

    def setup(self, I):
        v = self.version(I)
        self.obj = processor_object(I, v, V.VBool(self.expect))     # class invariant assumed on entry
        self.data = I.fresh("message_data")
        return [self.obj, self.data], {}

    def post(self, I, result):
        want = z3.Or(z3.Not(V.is_list(self.data)), self.expect)
        I.oblige(self.name(f"accepts_iff_not_batch_or_older[{self.mode}]"), result == V.VBool(want),
                 watch={"version": self.v, "data": self.data})
        en, _ = I.get_field(self.obj, "batching_enabled")
        pv, _ = I.get_field(self.obj, "protocol_version")
        I.oblige(self.name(f"frame_processor_unchanged[{self.mode}]"),
                 z3.And(en == V.VBool(self.expect), pv == self.v))


class RejectionError(Contract):
    key = f"{BATCHING}::BatchProcessor.create_batch_rejection_error"
    prop = "C13"

    def setup(self, I):
        v = I.fresh("version")
        I.assume(z3.Or(V.is_none(v), V.is_str(v)))
        self.obj = processor_object(I, v, V.FALSE)
        return [self.obj], {}

    def post(self, I, result):
        err = z3.Select(Val.dvals(result), z3.StringVal("error"))
        code = z3.Select(Val.dvals(err), z3.StringVal("code"))
        msg = z3.Select(Val.dvals(err), z3.StringVal("message"))
        I.oblige(self.name("is_single_invalid_request_error"),
                 z3.And(V.is_dict(result), z3.Select(Val.dkeys(result), z3.StringVal("error")),
                        z3.Select(Val.dvals(result), z3.StringVal("jsonrpc")) == V.VStr("2.0"),
                        V.is_dict(err), code == V.VInt(-32600), V.is_str(msg),
                        z3.Not(z3.Select(Val.dkeys(result), z3.StringVal("result"))),
                        z3.Not(z3.Select(Val.dkeys(result), z3.StringVal("method")))))


class Compare(Contract):
    """The library's own version ordering on well-formed versions is the code-point order."""
    key = f"{VERSIONING}::ProtocolVersion.compare"
    prop = "C13"

    def setup(self, I):
        self.v1, self.c1 = dated_version(I, "a")
        self.v2, self.c2 = dated_version(I, "b")
        return [self.v1, self.v2], {}

    def post(self, I, result):
        lt, eq = P.chars_lt(self.c1, self.c2, True), P.chars_eq(self.c1, self.c2)
        want = z3.If(eq, V.VInt(0), z3.If(lt, V.VInt(-1), V.VInt(1)))
        I.oblige(self.name("is_code_point_order_on_dated_versions"), result == want,
                 watch={"v1": self.v1, "v2": self.v2, "result": result})


class CompareCutoff(Contract):
    """Agreement of the decision with the library's ordering: compare(v, cutoff) < 0 iff v older."""
    key = f"{VERSIONING}::ProtocolVersion.compare"
    prop = "C13"

    def setup(self, I):
        self.v1, self.c1 = dated_version(I, "a")
        return [self.v1, V.VStr(CUTOFF)], {}

    def post(self, I, result):
        I.oblige(self.name("negative_iff_older_than_cutoff"),
                 z3.And(V.is_int(result), (Val.i(result) < 0) == older(self.c1)), watch={"v": self.v1})


def lemma_monotone():
    ds1 = [z3.Int(f"m1_{k}") for k in range(8)]
    ds2 = [z3.Int(f"m2_{k}") for k in range(8)]
    asm = [z3.And(d >= 0, d <= 9) for d in ds1 + ds2]

    def chars(ds):
        c = [48 + d for d in ds]
        return c[:4] + ["-"] + c[4:6] + ["-"] + c[6:8]
    c1, c2 = chars(ds1), chars(ds2)
    asm.append(P.chars_lt(c1, c2, False))           # v1 <= v2
    asm.append(z3.Not(older(c1)))                   # v1 does not support batching (by the proved iff)
    return asm, z3.Not(older(c2))


def lemma_date_order_is_code_point_order():
    """(y, m, d) numeric order == code-point order on the shape: justifies the oracle."""
    ds1 = [z3.Int(f"o1_{k}") for k in range(8)]
    ds2 = [z3.Int(f"o2_{k}") for k in range(8)]
    asm = [z3.And(d >= 0, d <= 9) for d in ds1 + ds2]

    def parts(ds):
        return (ds[0] * 1000 + ds[1] * 100 + ds[2] * 10 + ds[3], ds[4] * 10 + ds[5], ds[6] * 10 + ds[7])

    def chars(ds):
        c = [48 + d for d in ds]
        return c[:4] + ["-"] + c[4:6] + ["-"] + c[6:8]
    (y1, m1, d1), (y2, m2, d2) = parts(ds1), parts(ds2)
    num_lt = z3.Or(y1 < y2, z3.And(y1 == y2, z3.Or(m1 < m2, z3.And(m1 == m2, d1 < d2))))
    return asm, num_lt == P.chars_lt(chars(ds1), chars(ds2), True)


class C13(Check):
    prop = "C13"
    level = "proof"
    title = ("decision function, class invariant of BatchProcessor and the library's version ordering proved for all "
             "10^8 dddd-dd-dd strings plus None/empty; transport clauses: see level_note")
    design_ref = "section 7, C13"
    trusted = [
        "re.match(r'^\\d{4}-\\d{2}-\\d{2}$', s) succeeds on every ASCII dddd-dd-dd string (assumed; audited on the "
        "1990..2199 date grid against CPython's re)",
        "'well-formed version' is taken as the property's quantifier: ASCII digits (\\d also matches other digits)",
    ]

    def install(self, ctx):
        E.install_standard(ctx)

    def contracts(self):
        cs = [SupportsBatchingTotal(), RejectionError(), Compare(), CompareCutoff()]
        for mode in ("dated", "none", "empty"):
            cs += [SupportsBatching(mode), ShouldRejectBatch(mode), ProcessorInit(mode), CanProcessBatch(mode)]
        for mode in ("dated",):
            cs += [ProcessorUpdate(mode)]
        return cs

    def lemmas(self):
        return [Lemma("C13.lemma.decision_is_monotone_in_the_date", lemma_monotone),
                Lemma("C13.lemma.numeric_date_order_is_code_point_order", lemma_date_order_is_code_point_order)]

    def canaries(self):
        return [
            Canary("day > 18 (cutoff day itself accepted)", BATCHING, "day >= 18", "day > 18", "result_iff_older"),
            Canary("month >= 6", BATCHING, "year == 2025 and month > 6", "year == 2025 and month >= 6",
                   "result_iff_older"),
            Canary("can_process_batch always True", BATCHING, "        return self.batching_enabled",
                   "        return True", "accepts_iff"),
            Canary("update_protocol_version forgets to recompute", BATCHING,
                   "        self.batching_enabled = supports_batching(version)\n",
                   "        pass\n", "invariant_preserved"),
            Canary("compare inverted", VERSIONING, "return 1 if version1 > version2 else -1",
                   "return 1 if version1 < version2 else -1", "compare"),
        ]

    def audits(self, tier):
        def re_audit():
            import re
            n = 0
            pat = r"^\d{4}-\d{2}-\d{2}$"
            ys = range(1990, 2200) if tier == "thorough" else range(2020, 2031)
            for y in ys:
                for m in range(0, 100, 1 if tier == "thorough" else 7):
                    for d in range(0, 100, 1 if tier == "thorough" else 7):
                        s = f"{y:04d}-{m:02d}-{d:02d}"
                        n += 1
                        if not re.match(pat, s):
                            return AuditResult("re.match accepts dated shape", False, n, s)
            return AuditResult("re.match accepts dated shape", True, n, bound=f"years {ys.start}..{ys.stop - 1}")
        return [re_audit]

    def replay(self, name, model, ob):
        from chuk_mcp.protocol.features.batching import supports_batching, should_reject_batch, BatchProcessor
        from chuk_mcp.protocol.types.versioning import ProtocolVersion
        v = model.get("version", model.get("v"))
        if "compare" in name:
            v1, v2 = model.get("v1", v), model.get("v2", CUTOFF)
            got = ProtocolVersion.compare(v1, v2)
            want = 0 if v1 == v2 else (-1 if v1 < v2 else 1)
            return dict(reproduced=got != want, input=[v1, v2], observed=got, required=want)
        if not (v is None or isinstance(v, str)):
            return None
        want = (not v) or v < CUTOFF
        data = model.get("data", [])
        if "supports_batching" in name:
            try:
                got = supports_batching(v)
            except Exception as ex:
                return dict(reproduced=True, input=v, observed=repr(ex), required=want)
            return dict(reproduced=got != want, input=v, observed=got, required=want)
        if "should_reject_batch" in name:
            got = should_reject_batch(v, data)
            w = isinstance(data, list) and not want
            return dict(reproduced=got != w, input=[v, data], observed=got, required=w)
        if "BatchProcessor" in name:
            p = BatchProcessor("2024-11-05")
            p.update_protocol_version(v)
            p2 = BatchProcessor(v)
            obs = dict(after_update=p.batching_enabled, after_init=p2.batching_enabled,
                       can_batch=p2.can_process_batch([1]), can_single=p2.can_process_batch({}))
            req = dict(after_update=want, after_init=want, can_batch=want, can_single=True)
            return dict(reproduced=obs != req, input=v, observed=obs, required=req)
        return None


CHECK = C13()
