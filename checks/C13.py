"""C13 - batches are accepted exactly for protocol versions older than 2025-06-18."""
from __future__ import annotations

import z3

from pyvc import vals as V
from pyvc.vals import Val
from pyvc import prelude as P
from pyvc import envs as E
from pyvc.check import Check, Canary, Lemma, AuditResult
from pyvc.verify import Contract

BATCHING = "src/chuk_mcp/protocol/features/batching.py"
VERSIONING = "src/chuk_mcp/protocol/types/versioning.py"
CUTOFF = "2025-06-18"


def dated_version(I, tag="v"):
    """A version of shape dddd-dd-dd over eight symbolic ASCII digits: all 10^8 such strings."""
    ds = [I.fresh_int(f"{tag}d{k}") for k in range(8)]
    for d in ds:
        I.assume(z3.And(d >= 0, d <= 9))
    codes = [48 + d for d in ds]
    chars = codes[:4] + ["-"] + codes[4:6] + ["-"] + codes[6:8]
    return V.VStr(P.from_chars(chars)), chars


def older(chars):
    """Oracle from the property text: v is older than the cutoff (code-point order == date order on this shape)."""
    return P.chars_lt(chars, list(CUTOFF), True)


class VersionModes:
    """mode in {'dated', 'none', 'empty'}: the version inputs the property quantifies over."""

    def version(self, I):
        if self.mode == "dated":
            v, chars = dated_version(I)
            self.expect = older(chars)
        elif self.mode == "none":
            v, self.expect = V.NONE, z3.BoolVal(True)
        else:
            v, self.expect = V.VStr(""), z3.BoolVal(True)
        self.v = v
        return v


class SupportsBatching(Contract, VersionModes):
    key = f"{BATCHING}::supports_batching"
    prop = "C13"

    def __init__(self, mode):
        self.mode = mode

    def setup(self, I):
        return [self.version(I)], {}

    def post(self, I, result):
        I.oblige(self.name(f"result_iff_older_than_cutoff[{self.mode}]"), result == V.VBool(self.expect),
                 watch={"version": self.v, "result": result})


class SupportsBatchingTotal(Contract):
    """For every str (any content) or None the decision function returns a bool and never raises."""
    key = f"{BATCHING}::supports_batching"
    prop = "C13"

    def setup(self, I):
        v = I.fresh("anyversion")
        I.assume(z3.Or(V.is_none(v), V.is_str(v)))
        self.v = v
        return [v], {}

    def post(self, I, result):
        I.oblige(self.name("total_returns_bool[any str or None]"), V.is_bool(result), watch={"version": self.v})


class ShouldRejectBatch(Contract, VersionModes):
    key = f"{BATCHING}::should_reject_batch"
    prop = "C13"

    def __init__(self, mode):
        self.mode = mode

    def setup(self, I):
        self.data = I.fresh("message_data")
        return [self.version(I), self.data], {}

    def post(self, I, result):
        want = z3.And(V.is_list(self.data), z3.Not(self.expect))
        I.oblige(self.name(f"rejects_iff_batch_and_not_older[{self.mode}]"), result == V.VBool(want),
                 watch={"version": self.v, "data": self.data})


def processor_object(I, version, enabled):
    cd = I.ctx.repo_class(I.ctx.repo.klass(f"{BATCHING}::BatchProcessor"))
    return I.new_object(cd, {"protocol_version": version, "batching_enabled": enabled})


class ProcessorInit(Contract, VersionModes):
    """Class invariant established: batching_enabled == supports_batching(protocol_version)."""
    key = f"{BATCHING}::BatchProcessor.__init__"
    prop = "C13"

    def __init__(self, mode):
        self.mode = mode

    def setup(self, I):
        cd = I.ctx.repo_class(I.ctx.repo.klass(f"{BATCHING}::BatchProcessor"))
        self.obj = I.new_object(cd)
        return [self.obj, self.version(I)], {}

    def post(self, I, result):
        en, has = I.get_field(self.obj, "batching_enabled")
        pv, hasv = I.get_field(self.obj, "protocol_version")
        I.oblige(self.name(f"invariant_established[{self.mode}]"),
                 z3.And(has, hasv, en == V.VBool(self.expect), pv == self.v), watch={"version": self.v})


class ProcessorUpdate(Contract, VersionModes):
    """Invariant preserved by update_protocol_version from ANY prior state (so a version change in the
    middle of a connection is covered)."""
    key = f"{BATCHING}::BatchProcessor.update_protocol_version"
    prop = "C13"

    def __init__(self, mode):
        self.mode = mode

    def setup(self, I):
        old_v = I.fresh("old_version")
        old_en = I.fresh("old_enabled")
        I.assume(V.is_bool(old_en))
        self.obj = processor_object(I, old_v, old_en)
        return [self.obj, self.version(I)], {}

    def post(self, I, result):
        en, has = I.get_field(self.obj, "batching_enabled")
        pv, hasv = I.get_field(self.obj, "protocol_version")
        I.oblige(self.name(f"invariant_preserved[{self.mode}]"),
                 z3.And(has, hasv, en == V.VBool(self.expect), pv == self.v), watch={"version": self.v})


class ClientSetProtocolVersion(Contract, VersionModes):
    """StdioClient.set_protocol_version(v): the connection's processor is switched to v - whatever v is (a version the
    library does not list included) and whatever mode the connection was in before - so the accept/reject decision
    follows the date ordering of the NEGOTIATED version, not the connection's history"""
    key = "src/chuk_mcp/transports/stdio/stdio_client.py::StdioClient.set_protocol_version"
    prop = "C13"
    covers = ("return",)

    def __init__(self, mode):
        self.mode = mode

    def setup(self, I):
        old_v = I.fresh("old_version")
        old_en = I.fresh("old_enabled")
        I.assume(V.is_bool(old_en))
        self.obj = processor_object(I, old_v, old_en)
        ccd = I.ctx.repo_class(I.ctx.repo.klass("src/chuk_mcp/transports/stdio/stdio_client.py::StdioClient"))
        self.client = I.new_object(ccd, {"batch_processor": self.obj})
        return [self.client, self.version(I)], {}

    def post(self, I, result):
        en, has = I.get_field(self.obj, "batching_enabled")
        pv, hasv = I.get_field(self.obj, "protocol_version")
        bp, _ = I.get_field(self.client, "batch_processor")
        I.oblige(self.name(f"processor_follows_the_negotiated_version[{self.mode}]"),
                 z3.And(bp == self.obj, has, hasv, en == V.VBool(self.expect), pv == self.v), watch={"version": self.v})


class CanProcessBatch(Contract, VersionModes):
    key = f"{BATCHING}::BatchProcessor.can_process_batch"
    prop = "C13"

    def __init__(self, mode):
        self.mode = mode

    def setup(self, I):
        v = self.version(I)
        self.obj = processor_object(I, v, V.VBool(self.expect))     # class invariant assumed on entry
        self.data = I.fresh("message_data")
        return [self.obj, self.data], {}

    def post(self, I, result):
        want = z3.Or(z3.Not(V.is_list(self.data)), self.expect)
        I.oblige(self.name(f"accepts_iff_not_batch_or_older[{self.mode}]"), result == V.VBool(want),
                 watch={"version": self.v, "data": self.data})
        en, _ = I.get_field(self.obj, "batching_enabled")
        pv, _ = I.get_field(self.obj, "protocol_version")
        I.oblige(self.name(f"frame_processor_unchanged[{self.mode}]"),
                 z3.And(en == V.VBool(self.expect), pv == self.v))


class RejectionError(Contract):
    key = f"{BATCHING}::BatchProcessor.create_batch_rejection_error"
    prop = "C13"

    def setup(self, I):
        v = I.fresh("version")
        I.assume(z3.Or(V.is_none(v), V.is_str(v)))
        self.obj = processor_object(I, v, V.FALSE)
        return [self.obj], {}

    def post(self, I, result):
        err = z3.Select(Val.dvals(result), z3.StringVal("error"))
        code = z3.Select(Val.dvals(err), z3.StringVal("code"))
        msg = z3.Select(Val.dvals(err), z3.StringVal("message"))
        I.oblige(self.name("is_single_invalid_request_error"),
                 z3.And(V.is_dict(result), z3.Select(Val.dkeys(result), z3.StringVal("error")),
                        z3.Select(Val.dvals(result), z3.StringVal("jsonrpc")) == V.VStr("2.0"),
                        V.is_dict(err), code == V.VInt(-32600), V.is_str(msg),
                        z3.Not(z3.Select(Val.dkeys(result), z3.StringVal("result"))),
                        z3.Not(z3.Select(Val.dkeys(result), z3.StringVal("method")))))


class Compare(Contract):
    """The library's own version ordering on well-formed versions is the code-point order."""
    key = f"{VERSIONING}::ProtocolVersion.compare"
    prop = "C13"

    def setup(self, I):
        self.v1, self.c1 = dated_version(I, "a")
        self.v2, self.c2 = dated_version(I, "b")
        return [self.v1, self.v2], {}

    def post(self, I, result):
        lt, eq = P.chars_lt(self.c1, self.c2, True), P.chars_eq(self.c1, self.c2)
        want = z3.If(eq, V.VInt(0), z3.If(lt, V.VInt(-1), V.VInt(1)))
        I.oblige(self.name("is_code_point_order_on_dated_versions"), result == want,
                 watch={"v1": self.v1, "v2": self.v2, "result": result})


class CompareCutoff(Contract):
    """Agreement of the decision with the library's ordering: compare(v, cutoff) < 0 iff v older."""
    key = f"{VERSIONING}::ProtocolVersion.compare"
    prop = "C13"

    def setup(self, I):
        self.v1, self.c1 = dated_version(I, "a")
        return [self.v1, V.VStr(CUTOFF)], {}

    def post(self, I, result):
        I.oblige(self.name("negative_iff_older_than_cutoff"),
                 z3.And(V.is_int(result), (Val.i(result) < 0) == older(self.c1)), watch={"v": self.v1})


def lemma_monotone():
    ds1 = [z3.Int(f"m1_{k}") for k in range(8)]
    ds2 = [z3.Int(f"m2_{k}") for k in range(8)]
    asm = [z3.And(d >= 0, d <= 9) for d in ds1 + ds2]

    def chars(ds):
        c = [48 + d for d in ds]
        return c[:4] + ["-"] + c[4:6] + ["-"] + c[6:8]
    c1, c2 = chars(ds1), chars(ds2)
    asm.append(P.chars_lt(c1, c2, False))           # v1 <= v2
    asm.append(z3.Not(older(c1)))                   # v1 does not support batching (by the proved iff)
    return asm, z3.Not(older(c2))


def lemma_date_order_is_code_point_order():
    """(y, m, d) numeric order == code-point order on the shape: justifies the oracle."""
    ds1 = [z3.Int(f"o1_{k}") for k in range(8)]
    ds2 = [z3.Int(f"o2_{k}") for k in range(8)]
    asm = [z3.And(d >= 0, d <= 9) for d in ds1 + ds2]

    def parts(ds):
        return (ds[0] * 1000 + ds[1] * 100 + ds[2] * 10 + ds[3], ds[4] * 10 + ds[5], ds[6] * 10 + ds[7])

    def chars(ds):
        c = [48 + d for d in ds]
        return c[:4] + ["-"] + c[4:6] + ["-"] + c[6:8]
    (y1, m1, d1), (y2, m2, d2) = parts(ds1), parts(ds2)
    num_lt = z3.Or(y1 < y2, z3.And(y1 == y2, z3.Or(m1 < m2, z3.And(m1 == m2, d1 < d2))))
    return asm, num_lt == P.chars_lt(chars(ds1), chars(ds2), True)


class C13(Check):
    prop = "C13"
    level = "proof"
    title = ("decision function, class invariant of BatchProcessor and the library's version ordering proved for all "
             "10^8 dddd-dd-dd strings plus None/empty; transport clauses: see level_note")
    design_ref = "section 7, C13"
    trusted = [
        "re.match(r'^\\d{4}-\\d{2}-\\d{2}$', s) succeeds on every ASCII dddd-dd-dd string (assumed; audited on the "
        "1990..2199 date grid against CPython's re)",
        "'well-formed version' is taken as the property's quantifier: ASCII digits (\\d also matches other digits)",
    ]

    def install(self, ctx):
        E.install_standard(ctx)

    def contracts(self):
        cs = [SupportsBatchingTotal(), RejectionError(), Compare(), CompareCutoff()]
        for mode in ("dated", "none", "empty"):
            cs += [SupportsBatching(mode), ShouldRejectBatch(mode), ProcessorInit(mode), CanProcessBatch(mode)]
        for mode in ("dated",):
            cs += [ProcessorUpdate(mode)]
            if mode == "dated":
                cs += [ClientSetProtocolVersion(mode)]
        return cs

    def lemmas(self):
        return [Lemma("C13.lemma.decision_is_monotone_in_the_date", lemma_monotone),
                Lemma("C13.lemma.numeric_date_order_is_code_point_order", lemma_date_order_is_code_point_order)]

    def canaries(self):
        return [
            Canary("day > 18 (cutoff day itself accepted)", BATCHING, "day >= 18", "day > 18", "result_iff_older"),
            Canary("month >= 6", BATCHING, "year == 2025 and month > 6", "year == 2025 and month >= 6",
                   "result_iff_older"),
            Canary("can_process_batch always True", BATCHING, "        return self.batching_enabled",
                   "        return True", "accepts_iff"),
            Canary("update_protocol_version forgets to recompute", BATCHING,
                   "        self.batching_enabled = supports_batching(version)\n",
                   "        pass\n", "invariant_preserved"),
            Canary("compare inverted", VERSIONING, "return 1 if version1 > version2 else -1",
                   "return 1 if version1 < version2 else -1", "compare"),
        ]

    def audits(self, tier):
        def re_audit():
            import re
            n = 0
            pat = r"^\d{4}-\d{2}-\d{2}$"
            ys = range(1990, 2200) if tier == "thorough" else range(2020, 2031)
            for y in ys:
                for m in range(0, 100, 1 if tier == "thorough" else 7):
                    for d in range(0, 100, 1 if tier == "thorough" else 7):
                        s = f"{y:04d}-{m:02d}-{d:02d}"
                        n += 1
                        if not re.match(pat, s):
                            return AuditResult("re.match accepts dated shape", False, n, s)
            return AuditResult("re.match accepts dated shape", True, n, bound=f"years {ys.start}..{ys.stop - 1}")
        return [re_audit]

    def replay(self, name, model, ob):
        from chuk_mcp.protocol.features.batching import supports_batching, should_reject_batch, BatchProcessor
        from chuk_mcp.protocol.types.versioning import ProtocolVersion
        v = model.get("version", model.get("v"))
        if "compare" in name:
            v1, v2 = model.get("v1", v), model.get("v2", CUTOFF)
            got = ProtocolVersion.compare(v1, v2)
            want = 0 if v1 == v2 else (-1 if v1 < v2 else 1)
            return dict(reproduced=got != want, input=[v1, v2], observed=got, required=want)
        if not (v is None or isinstance(v, str)):
            return None
        want = (not v) or v < CUTOFF
        data = model.get("data", [])
        if "supports_batching" in name:
            try:
                got = supports_batching(v)
            except Exception as ex:
                return dict(reproduced=True, input=v, observed=repr(ex), required=want)
            return dict(reproduced=got != want, input=v, observed=got, required=want)
        if "should_reject_batch" in name:
            got = should_reject_batch(v, data)
            w = isinstance(data, list) and not want
            return dict(reproduced=got != w, input=[v, data], observed=got, required=w)
        if "BatchProcessor" in name:
            p = BatchProcessor("2024-11-05")
            p.update_protocol_version(v)
            p2 = BatchProcessor(v)
            obs = dict(after_update=p.batching_enabled, after_init=p2.batching_enabled,
                       can_batch=p2.can_process_batch([1]), can_single=p2.can_process_batch({}))
            req = dict(after_update=want, after_init=want, can_batch=want, can_single=True)
            return dict(reproduced=obs != req, input=v, observed=obs, required=req)
        return None


CHECK = C13()


# =========================================================================== transport part (stdio reader)
from pyvc import envs as _E                      # noqa: E402
from pyvc.core import PyRaise as _PyRaise         # noqa: E402
from checks import stdio as ST                    # noqa: E402

STDIO = ST.STDIO
E2 = z3.Function("batch_docs", V.SeqVal, V.SeqVal)     # the valid members of a batch, in order (lock-step spec)


class RouteMessage(Contract):
    """_route_message: every message is handed to the main read stream; id-less ones are additionally offered to
    the notification stream; nothing else is written; routing never raises for a live stream."""
    key = f"{STDIO}::StdioClient._route_message"
    prop = "C13"

    def setup(self, I):
        self.client = ST.make_client(I)
        mid = I.fresh("mid")
        I.assume(z3.Or(V.is_none(mid), V.is_int(mid), V.is_str(mid)))
        self.mid = mid
        cd = I.ctx.env_class(ST.MESSAGE)
        self.msg = I.new_object(cd, {"id": mid, "__src__": I.fresh("src")})
        # the legacy per-request table: an arbitrary map from request-id strings to one-shot streams
        pend = I.fresh("pending")
        I.assume(z3.And(V.is_dict(pend), Val.dsize(pend) >= 0))
        I.set_attr(self.client, "_pending", pend, record=False)
        self.pend = pend
        self.q = I.fresh("other_id", z3.StringSort())
        ws_cid = I.ctx.env_class(_E.WRITE_STREAM).cid
        self.ws_cid = ws_cid
        I.dict_entry_hook = self.legacy_wf
        self.legacy_wf(I, pend, self.q)
        self.q_stream = z3.Select(Val.dvals(pend), self.q)
        self.q_attempted0 = z3.Select(I.st.field("attempted")[0], Val.oid(self.q_stream))
        return [self.client, self.msg], {}

    def legacy_wf(self, I, D, k):
        if not z3.eq(z3.simplify(Val.did(z3.simplify(D))), z3.simplify(Val.did(self.pend))):
            return
        rec = z3.Select(Val.dvals(D), k)
        o = Val.oid(rec)
        conds = [V.is_obj(rec), o > 0, o < 1_000_000, z3.Select(I.ctx.cls0, o) == self.ws_cid]
        for f in ("attempted", "written", "closed"):
            conds.append(z3.Select(I.st.field(f)[1], o))
        conds.append(V.is_list(z3.Select(I.st.field("attempted")[0], o)))
        conds.append(V.is_list(z3.Select(I.st.field("written")[0], o)))
        I.assume(z3.Implies(z3.Select(Val.dkeys(D), k), z3.And(conds)))
        # distinct ids have distinct one-shot streams
        I.assume(z3.Implies(z3.And(k != self.q, z3.Select(Val.dkeys(D), k), z3.Select(Val.dkeys(D), self.q)),
                            rec != z3.Select(Val.dvals(D), self.q)))

    def post(self, I, result):
        parts = I.client_parts
        w = Val.items(_E.gfield(I, parts["incoming_send"], "written"))
        a = Val.items(_E.gfield(I, parts["incoming_send"], "attempted"))
        n = Val.items(_E.gfield(I, parts["notify_send"], "written"))
        I.oblige(self.name("offered_exactly_once_to_the_read_stream"),
                 z3.And(z3.Length(a) == 1, a[0] == self.msg, z3.Or(z3.Length(w) == 0, w == a)))
        I.oblige(self.name("only_notifications_reach_the_notification_stream"),
                 z3.If(V.is_none(self.mid), z3.Or(z3.Length(n) == 0, n == z3.Unit(self.msg)), z3.Length(n) == 0))
        # no cross-talk on the legacy per-request streams: a caller registered under another id gets nothing
        own = P.to_str(I, self.mid)
        now_att = z3.Select(I.st.field("attempted")[0], Val.oid(self.q_stream))
        I.oblige(self.name("a_legacy_waiter_for_another_id_is_not_handed_this_message"),
                 z3.Implies(z3.And(z3.Select(Val.dkeys(self.pend), self.q), z3.Or(V.is_none(self.mid), self.q != own)),
                            now_att == self.q_attempted0),
                 watch={"message_id": self.mid, "other_id": V.VStr(self.q)})

    def post_exc(self, I, e):
        ok = e.cls_name in ("CancelledError", "ClosedResourceError")
        I.oblige(self.name(f"raises_only_when_the_stream_is_closed_or_cancelled[{e.cls_name}]"), z3.BoolVal(ok))


class NewRequestStream(Contract):
    """new_request_stream(req_id): registers a one-shot stream under req_id and returns its receive end; every other
    entry of the per-request table is left exactly as it was (no waiter is forgotten: no lost responses)"""
    key = f"{STDIO}::StdioClient.new_request_stream"
    prop = "C13"
    covers = ("return",)

    def setup(self, I):
        self.client = ST.make_client(I)
        pend = I.fresh("pending")
        I.assume(z3.And(V.is_dict(pend), Val.dsize(pend) >= 0))
        I.set_attr(self.client, "_pending", pend, record=False)
        self.pend = pend
        rid = I.fresh("req_id", z3.StringSort())
        self.rid = rid
        return [self.client, V.VStr(rid)], {}

    def post(self, I, result):
        now, _ = I.get_field(self.client, "_pending")
        q = z3.String("nrs!q")
        I.oblige(self.name("registers_a_stream_under_the_request_id"),
                 z3.And(V.is_dict(now), z3.Select(Val.dkeys(now), self.rid), V.is_obj(z3.Select(Val.dvals(now), self.rid)),
                        V.is_obj(result)))
        I.oblige(self.name("every_other_waiter_stays_registered_unchanged"),
                 z3.ForAll([q], z3.Implies(q != self.rid,
                                           z3.And(z3.Select(Val.dkeys(now), q) == z3.Select(Val.dkeys(self.pend), q),
                                                  z3.Implies(z3.Select(Val.dkeys(self.pend), q),
                                                             z3.Select(Val.dvals(now), q) == z3.Select(Val.dvals(self.pend), q))))))


class RouteModular(Contract):
    """call-site form: delivers msg (ghost `delivered` += [src(msg)]) or raises ClosedResourceError"""
    key = f"{STDIO}::StdioClient._route_message"

    def apply(self, I, args, kwargs, node):
        msg = args[1]
        if I.choose_n(2, "route_outcome") == 1:
            raise _PyRaise(I.make_exc("ClosedResourceError", V.VStr("")), "ClosedResourceError")
        h = I.ghost["holder"]
        src, _ = I.get_field(msg, "__src__")
        d = Val.items(_E.gfield(I, h, "delivered"))
        I.set_attr(h, "delivered", V.VList(z3.simplify(z3.Concat(d, z3.Unit(src)))))
        _E.checkpoint_nofire(I)
        return V.NONE


class TransportHolder(_E.EnvClass):
    name = "TransportGhost"
    methods = {}


T_HOLDER = TransportHolder()


class ProcessMessageData(Contract, VersionModes):
    """_process_message_data(data) for the version current AT THAT CALL (so version changes mid-connection are
    covered): a batch at a version without batching is answered with exactly one -32600 error on stdin and
    nothing is delivered; otherwise every valid member is delivered in order and an invalid one is dropped alone;
    a single message is delivered iff valid.  Never raises."""
    key = f"{STDIO}::StdioClient._process_message_data"
    prop = "C13"

    def __init__(self, mode, shape):
        self.mode, self.shape = mode, shape        # shape: batch | single

    def name(self, clause):
        return f"C13._process_message_data.{clause}[{self.mode},{self.shape}]"

    def setup(self, I):
        I.c13t = self
        proc, out, inn, _ = ST.make_process(I)
        self.stdin = inn
        self.client = ST.make_client(I, process=proc)
        v = self.version(I)
        bp = I.client_parts["bp"]
        # class invariant of the processor (proved above): batching_enabled == older-than-cutoff(version)
        I.set_attr(bp, "protocol_version", v, record=False)
        I.set_attr(bp, "batching_enabled", V.VBool(self.expect), record=False)
        self.holder = _E.new_env_object(I, T_HOLDER, delivered=V.VList([]))
        I.ghost["holder"] = self.holder
        data = I.fresh("data")
        I.assume(z3.Or(V.is_none(data), V.is_bool(data), V.is_int(data), V.is_real(data), V.is_str(data),
                       V.is_list(data), V.is_dict(data)))
        I.assume(V.is_list(data) if self.shape == "batch" else z3.Not(V.is_list(data)))
        self.data = data
        I.assume(E2(z3.Empty(V.SeqVal)) == z3.Empty(V.SeqVal))
        return [self.client, data], {}

    def doc(self, x):
        """what one item contributes: itself iff it is a dict that parses as a message"""
        return z3.If(z3.And(V.is_dict(x), ST.valid_message(x)), z3.Unit(x), z3.Empty(V.SeqVal))

    def post(self, I, result):
        delivered = Val.items(_E.gfield(I, self.holder, "delivered"))
        writes = Val.items(_E.gfield(I, self.stdin, "writes"))
        watch = {"version": self.v, "data": self.data}
        if self.shape == "single":
            I.oblige(self.name("single_message_delivered_iff_valid"),
                     z3.Or(delivered == self.doc(self.data),
                           z3.And(z3.BoolVal(bool(I.ghost.get("route_failed"))), z3.Length(delivered) == 0)), watch=watch)
            I.oblige(self.name("nothing_written_back_for_a_single_message"), z3.Length(writes) == 0, watch=watch)
            return
        items = Val.items(self.data)
        accept = self.expect
        I.oblige(self.name("rejected_batch_delivers_none_of_its_members"),
                 z3.Implies(z3.Not(accept), z3.Length(delivered) == 0), watch=watch)
        attempted = Val.items(_E.gfield(I, self.stdin, "attempted"))
        dumped = I.ghost.get("last_dumped")
        if dumped is not None:
            err = z3.Select(Val.dvals(dumped), z3.StringVal("error"))
            code = z3.Select(Val.dvals(err), z3.StringVal("code"))
            frame = V.VBytes(P.utf8_enc(z3.Concat(ST.json_text(dumped), ST.NL)))
            single_error = z3.And(z3.Length(attempted) == 1, attempted[0] == frame, V.is_dict(dumped), V.is_dict(err),
                                  code == V.VInt(-32600), z3.Or(z3.Length(writes) == 0, writes == attempted))
        else:
            single_error = z3.BoolVal(False)
        I.oblige(self.name("rejected_batch_is_answered_with_a_single_invalid_request_error"),
                 z3.Implies(z3.Not(accept), single_error), watch=watch)
        I.oblige(self.name("accepted_batch_writes_nothing_back"), z3.Implies(accept, z3.Length(writes) == 0), watch=watch)
        if not I.ghost.get("route_failed"):
            I.oblige(self.name("accepted_batch_delivers_every_valid_member_in_order"),
                     z3.Implies(accept, delivered == E2(items)), watch=watch)

    def post_exc(self, I, e):
        I.oblige(self.name(f"never_raises[{e.cls_name}]"), z3.BoolVal(e.cls_name == "CancelledError"))


def batch_loop_inv(I, phase):
    c = I.c13t
    name = "C13._process_message_data.batch_loop"
    delivered = Val.items(_E.gfield(I, c.holder, "delivered"))
    writes = Val.items(_E.gfield(I, c.stdin, "writes"))
    items = Val.items(c.data)
    i = Val.i(I.frame.vars["__i0"])
    if phase == "head":
        x = items[i]
        done = z3.Extract(items, 0, i)
        I.assume(z3.Implies(i < z3.Length(items),
                            z3.And(E2(z3.Concat(done, z3.Unit(x))) == z3.Concat(E2(done), c.doc(x)),
                                   z3.Extract(items, 0, i + 1) == z3.Concat(done, z3.Unit(x)))))
        I.assume(z3.Extract(items, 0, z3.Length(items)) == items)
        # members of a parsed JSON document are themselves serialisable (codec round trip, C17)
        I.assume(z3.Implies(i < z3.Length(items), ST.json_serialisable(x)))
        # quantifier of the property: members are JSON objects or scalars (a nested array inside a batch is outside
        # it; natively such a member is parsed as a batch of its own and delivered as a list - noted in DESIGN.md)
        I.assume(z3.Implies(i < z3.Length(items), z3.Not(V.is_list(x))))
    cl = [(f"{name}.nothing_written_back", z3.Length(writes) == 0)]
    if not I.ghost.get("route_failed"):
        cl.append((f"{name}.delivered_are_the_valid_members_so_far_in_order", delivered == E2(z3.Extract(items, 0, i))))
    return cl


class RouteModularTracking(RouteModular):
    def apply(self, I, args, kwargs, node):
        try:
            return super().apply(I, args, kwargs, node)
        except _PyRaise:
            I.ghost["route_failed"] = True
            raise


class SendErrorResponse(Contract):
    """_send_error_response writes exactly one NDJSON line carrying the error (or nothing if the pipe fails);
    never raises."""
    key = f"{STDIO}::StdioClient._send_error_response"
    prop = "C13"

    def setup(self, I):
        proc, out, inn, _ = ST.make_process(I)
        self.stdin = inn
        self.client = ST.make_client(I, process=proc)
        err = I.fresh("error_response")
        I.assume(z3.And(V.is_dict(err), Val.dsize(err) >= 0))
        inner = z3.Select(Val.dvals(err), z3.StringVal("error"))
        # shape of the only argument the library passes: {"jsonrpc", "id", "error": {...}}
        I.assume(z3.Implies(z3.Select(Val.dkeys(err), z3.StringVal("error")),
                            z3.And(V.is_dict(inner), Val.dsize(inner) >= 0, Val.dsize(err) >= 1)))
        self.err = err
        return [self.client, err], {}

    def post(self, I, result):
        writes = Val.items(_E.gfield(I, self.stdin, "writes"))
        line = z3.Concat(ST.json_text(self.err), ST.NL)
        I.oblige(self.name("writes_at_most_the_one_error_line"),
                 z3.Or(z3.Length(writes) == 0, writes == z3.Unit(V.VBytes(P.utf8_enc(line)))))

    def post_exc(self, I, e):
        I.oblige(self.name(f"never_raises[{e.cls_name}]"), z3.BoolVal(e.cls_name == "CancelledError"))


_old_contracts = C13.contracts
_old_canaries = C13.canaries


def _contracts(self):
    cs = _old_contracts(self)
    cs += [RouteMessage(), NewRequestStream(), SendErrorResponse()]
    for mode in ("dated", "none"):
        for shape in ("batch", "single"):
            cs.append(ProcessMessageData(mode, shape))
    return cs


def _install(self, ctx):
    ST.install(ctx)
    ctx.env_class(T_HOLDER)


def _modular(self):
    return {f"{ST.FASTJSON}::dumps": ST.DumpsModular(), f"{ST.JSONRPC}::parse_message": ST.ParseMessageModular(),
            f"{STDIO}::StdioClient._route_message": RouteModularTracking()}


def _loop_invariants(self):
    return {(f"{STDIO}::StdioClient._process_message_data", 0): batch_loop_inv}


def _canaries(self):
    return _old_canaries(self) + [
        Canary("members routed before the batch is rejected", STDIO,
               "        if not self.batch_processor.can_process_batch(data):\n", "        if False:\n", "rejected_batch"),
        Canary("first invalid member aborts the rest of the batch", STDIO,
               '                    except Exception as exc:\n                        logger.error("Error processing batch item: %s", exc)\n',
               '                    except Exception as exc:\n                        logger.error("Error processing batch item: %s", exc)\n                        break\n',
               "every_valid_member"),
        Canary("rejection error written twice", STDIO,
               "            await self._send_error_response(error_response)\n            return\n",
               "            await self._send_error_response(error_response)\n            await self._send_error_response(error_response)\n            return\n",
               "single_invalid_request_error"),
    ]


def _bounded_stand_in(self, tier, undecided):
    """supports_batching / compare outside the interpreted subset: exhaustive native check on the date grid"""
    if not any("batching.py" in u or "versioning.py" in u for u in undecided):
        return []
    from chuk_mcp.protocol.features.batching import supports_batching
    from chuk_mcp.protocol.types.versioning import ProtocolVersion
    years = range(1990, 2200) if tier == "thorough" else range(2023, 2028)
    n = 0
    for y in years:
        for mth in range(100):
            for d in range(100):
                v = f"{y:04d}-{mth:02d}-{d:02d}"
                n += 1
                want = v < CUTOFF
                try:
                    got = supports_batching(v)
                except Exception as ex:
                    return [dict(name="supports_batching", reproduced=True, input=v, observed=repr(ex), required=want)]
                if got != want:
                    return [dict(name="supports_batching", reproduced=True, input=v, observed=got, required=want,
                                 bound=f"all dddd-dd-dd strings with year in {years.start}..{years.stop - 1}")]
                if (ProtocolVersion.compare(v, CUTOFF) < 0) != want:
                    return [dict(name="compare_agrees_with_decision", reproduced=True, input=v,
                                 observed=ProtocolVersion.compare(v, CUTOFF), required="negative iff older")]
    return [dict(name="supports_batching", reproduced=False, cases=n,
                 covers="batching.py::supports_batching|batching.py::should_reject_batch|batching.py::BatchProcessor|"
                        "versioning.py::ProtocolVersion.compare",
                 bound=f"all dddd-dd-dd strings with year in {years.start}..{years.stop - 1} (bounded, not a proof)")]


C13.bounded_stand_in = _bounded_stand_in
C13.contracts = _contracts
C13.install = _install
C13.modular = _modular
C13.loop_invariants = _loop_invariants
C13.canaries = _canaries
C13.title = ("decision function, BatchProcessor class invariant and version ordering proved for all 10^8 dddd-dd-dd "
             "strings plus None/empty; stdio transport: reject-with-one-error / deliver-valid-members-in-order proved "
             "for every batch and the version current at the call")
C13.trusted = C13.trusted + [
    "parse_message through its contract: a fresh message determined by the data, or ValueError/ValidationError "
    "(valid_message is uninterpreted); fast_json.dumps through its contract (C17)",
    "_route_message is verified on its own and used inside _process_message_data through its call-site contract"]
CHECK = C13()
