"""usage: dbg.py CHECK contract_index [--discharge]"""
import sys, time, os
sys.path.insert(0, '/verif')
import z3
from pyvc.check import make_context
from pyvc.loader import Repo
from pyvc.verify import explore, discharge
import importlib
prop, idx = sys.argv[1], int(sys.argv[2])
chk = importlib.import_module(f"checks.{prop}").CHECK
ctx = make_context(chk, Repo(os.environ.get("VERIF_REPO", "/repo")))
if len(sys.argv) > 3 and sys.argv[3].startswith("--to="):
    ctx.solver_timeout_ms = int(sys.argv[3][5:])
c = chk.contracts()[idx]
t = time.time()
fr = explore(ctx, c, getattr(c, "runner", None))
print(f"explore {time.time()-t:.1f}s paths={fr.paths} rounds={fr.rounds} outcomes={fr.outcomes} obls={len(fr.obligations)}")
print("unsupported:", fr.unsupported[:5]); print("errors:", fr.errors[:2]); print(ctx.stats)
if "--discharge" in sys.argv:
    t = time.time()
    res = discharge(fr.obligations, timeout_ms=20000)
    print(f"discharge {time.time()-t:.1f}s")
    by = {}
    for ob, v, s, m, why in res:
        by.setdefault((ob.name, v), []).append((s, ob, m))
    for (n, v), l in sorted(by.items()):
        print(f"{v:8s} x{len(l):3d} max {max(x[0] for x in l):6.2f}s  {n}")
        if v != "unsat":
            s, ob, m = l[0]
            print("     trace:", " | ".join(ob.trace[-14:]))
            if m: print("     model:", {k: v2 for k, v2 in m.items() if k != "__model__"})
print("loop writes:")
for k, v in ctx.loop_writes.items():
    print(" ", k[1], sorted(v, key=repr))
