import sys, time
sys.path.insert(0, '/verif')
import z3
from pyvc import vals as V
from pyvc.vals import Val
from pyvc.core import Context
from pyvc.verify import Contract, explore, discharge
from pyvc import prelude as P

class SB(Contract):
    key = "src/chuk_mcp/protocol/features/batching.py::supports_batching"
    prop = "C13"
    def setup(self, I):
        ds = [I.fresh_int(f"d{k}") for k in range(8)]
        for d in ds:
            I.assume(z3.And(d >= 0, d <= 9))
        codes = [48 + d for d in ds]
        chars = codes[:4] + ["-"] + codes[4:6] + ["-"] + codes[6:8]
        self.chars = chars
        v = V.VStr(P.from_chars(chars))
        self.v = v
        return [v], {}
    def post(self, I, result):
        cut = list("2025-06-18")
        I.oblige(self.name("iff_lex_lt_cutoff"), result == V.VBool(P.chars_lt(self.chars, cut, True)), watch={"v": self.v})

ctx = Context()
ctx.contracts_loop = lambda f, o: None
t = time.time()
r = explore(ctx, SB())
print("paths", r.paths, "obls", len(r.obligations), "unsupported", r.unsupported, r.outcomes, "t=%.2f" % (time.time() - t))
for ob, v, s, m, why in discharge(r.obligations):
    print(ob.name, v, "%.3f" % s, (m or {}).get("v"), why)
print(ctx.stats)

print("--- mutant day > 18")
ctx = Context()
ctx.contracts_loop = lambda f, o: None
src = open('/repo/src/chuk_mcp/protocol/features/batching.py').read()
assert "day >= 18" in src
ctx.repo.overrides['src/chuk_mcp/protocol/features/batching.py'] = src.replace("day >= 18", "day > 18")
r = explore(ctx, SB())
for ob, v, s, m, why in discharge(r.obligations):
    print(ob.name, v, "%.3f" % s, (m or {}).get("v"), why)
