import sys, os, traceback
sys.path.insert(0, '/verif')
import z3
from pyvc.check import make_context
from pyvc.loader import Repo
from pyvc.interp import Exec
from pyvc.core import PyRaise
import pyvc.core as core
import importlib
prop, idx = sys.argv[1], int(sys.argv[2])
chk = importlib.import_module(f"checks.{prop}").CHECK
ctx = make_context(chk, Repo("/repo"))
c = chk.contracts()[idx]
fi = ctx.repo.function(c.key)
# monkeypatch throw to print stack of first AttributeError
orig = core.Interp.throw
def throw(self, cls_name, msg=None, **attrs):
    if cls_name in sys.argv[3:]:
        print("THROW", cls_name, msg, "at", self.cur_func, self.cur_line)
        traceback.print_stack(limit=12)
    return orig(self, cls_name, msg, **attrs)
core.Interp.throw = throw
I = Exec(ctx, (), 1, [])
I.verifying = c.key
args, kwargs = c.setup(I)
try:
    r = I.call_function(fi, args, kwargs, None, inline=True)
    print("returned", r)
except PyRaise as e:
    print("raised", e.cls_name)
