import sys, time, os
sys.path.insert(0, '/verif')
import z3
from pyvc.check import make_context
from pyvc.loader import Repo
from pyvc.verify import explore, discharge
import importlib
prop, idx, pat = sys.argv[1], int(sys.argv[2]), sys.argv[3]
chk = importlib.import_module(f"checks.{prop}").CHECK
ctx = make_context(chk, Repo(os.environ.get("VERIF_REPO", "/repo")))
c = chk.contracts()[idx]
fr = explore(ctx, c, getattr(c, "runner", None))
for ob in fr.obligations:
    if pat in ob.name:
        s = z3.Solver(); s.set("timeout", 20000)
        for x in ob.pc: s.add(x)
        s.add(z3.Not(ob.goal))
        r = s.check()
        if r != z3.unsat:
            print(ob.name, r, "trace:", " | ".join(ob.trace[-12:]))
            print("PC:")
            for x in ob.pc: print("   ", str(x)[:300].replace("\n"," "))
            print("GOAL:", str(ob.goal)[:1500])
            if r == z3.sat:
                print("MODEL:", str(s.model())[:3000])
            break
