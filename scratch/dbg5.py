"""like dbg.py but uses the parallel scheduler and prints failing traces/models"""
import sys, os, time
sys.path.insert(0, '/verif')
import importlib
from pyvc import check as C
prop, idx = sys.argv[1], int(sys.argv[2])
chk = importlib.import_module(f"checks.{prop}").CHECK
t=time.time()
states = C.run_jobs(chk, [(None, idx)], os.environ.get("VERIF_REPO", "/repo"), [], 20000, [])
st = states[(None, idx)]
print(f"{time.time()-t:.1f}s paths={st.paths} rounds={st.round} outcomes={st.outcomes} unsupported={st.unsupported[:3]} errors={st.errors[:1]}")
by = {}
for r in st.recs:
    by.setdefault((r.name, r.verdict), []).append(r)
for (n, v), l in sorted(by.items()):
    if v != "unsat":
        print(f"{v:8s} x{len(l):3d} {n}")
        r = l[0]
        print("     trace:", " | ".join(r.trace[-16:]))
        if r.model: print("     model:", {k: v2 for k, v2 in r.model.items() if k != "__model__"})
