import sys, time, os
sys.path.insert(0, '/verif')
import z3
from pyvc.check import make_context
from pyvc.loader import Repo
from pyvc.verify import explore
from checks.C01 import CHECK, SendMessageC01Reg
ctx = make_context(CHECK, Repo("/repo"))
c = SendMessageC01Reg(False, True, id_mode="given")
t=time.time()
fr = explore(ctx, c)
print("explore", time.time()-t, fr.paths, fr.outcomes)
for ob in fr.obligations:
    if "exactly_one_request" in ob.name:
        s = z3.Solver(); s.set("timeout", 20000)
        for x in ob.pc: s.add(x)
        s.add(z3.Not(ob.goal))
        r = s.check()
        if r != z3.unsat:
            print(ob.name, r)
            g = ob.goal
            # find which conjunct fails
            if z3.is_and(g):
                for cj in g.children():
                    if z3.is_and(cj):
                        subs = cj.children()
                    else:
                        subs = [cj]
                    for sc in subs:
                        s2 = z3.Solver(); s2.set("timeout", 10000)
                        for x in ob.pc: s2.add(x)
                        s2.add(z3.Not(sc))
                        r2 = s2.check()
                        if r2 != z3.unsat:
                            print("  FAILING CONJUNCT:", r2, str(sc)[:1200])
            break
