"""Value universe of the symbolic interpreter.

One z3 algebraic datatype `Val` covers every Python value the supported subset can
produce.  Structured immutable data (lists, tuples, JSON-like dicts) are nested
through Seq / the range of Array; class instances are references (`obj(oid)`) into
a field-indexed heap kept in the symbolic state (one z3 array per attribute name).

Semantics assumed (listed in every evidence file):
  * Python int is a mathematical integer (exact).
  * float is a mathematical real (assumption).
  * dict values are string-keyed maps with a size and an identity tag; insertion
    order is not modelled (iteration order is unspecified in the model).
  * bytes are strings over code points 0..255.
"""
from __future__ import annotations

import itertools
import z3

_fresh_counter = itertools.count()


def fresh_name(prefix: str) -> str:
    return f"{prefix}!{next(_fresh_counter)}"


# --------------------------------------------------------------------------- sorts
ValRef = z3.DatatypeSort("Val")
_Val = z3.Datatype("Val")
_Val.declare("none")
_Val.declare("bool", ("b", z3.BoolSort()))
_Val.declare("int", ("i", z3.IntSort()))
_Val.declare("real", ("r", z3.RealSort()))
_Val.declare("str", ("s", z3.StringSort()))
_Val.declare("bytes", ("bs", z3.StringSort()))
_Val.declare("list", ("items", z3.SeqSort(ValRef)))
_Val.declare("tuple", ("titems", z3.SeqSort(ValRef)))
_Val.declare(
    "dict",
    ("did", z3.IntSort()),
    ("dkeys", z3.ArraySort(z3.StringSort(), z3.BoolSort())),
    ("dvals", z3.ArraySort(z3.StringSort(), ValRef)),
    ("dsize", z3.IntSort()),
)
_Val.declare("obj", ("oid", z3.IntSort()))
_Val.declare("fn", ("fid", z3.IntSort()))
_Val.declare("cls", ("cid", z3.IntSort()))
Val = _Val.create()

SeqVal = z3.SeqSort(Val)
KeySet = z3.ArraySort(z3.StringSort(), z3.BoolSort())
KeyMap = z3.ArraySort(z3.StringSort(), Val)

NONE = Val.none
TRUE = Val.bool(z3.BoolVal(True))
FALSE = Val.bool(z3.BoolVal(False))


def VBool(b):
    if isinstance(b, bool):
        return TRUE if b else FALSE
    return Val.bool(b)


def VInt(i):
    return Val.int(z3.IntVal(i) if isinstance(i, int) else i)


def VReal(r):
    return Val.real(z3.RealVal(r) if isinstance(r, (int, float, str)) else r)


def VStr(s):
    return Val.str(z3.StringVal(s) if isinstance(s, str) else s)


def VBytes(s):
    if isinstance(s, (bytes, bytearray)):
        s = z3.StringVal(bytes(s).decode("latin-1"))
    return Val.bytes(s)


def VObj(o):
    return Val.obj(z3.IntVal(o) if isinstance(o, int) else o)


def VFn(f):
    return Val.fn(z3.IntVal(f) if isinstance(f, int) else f)


def VCls(c):
    return Val.cls(z3.IntVal(c) if isinstance(c, int) else c)


def seq_of(vals):
    vals = list(vals)
    if not vals:
        return z3.Empty(SeqVal)
    if len(vals) == 1:
        return z3.Unit(vals[0])
    return z3.Concat(*[z3.Unit(v) for v in vals])


def VList(vals):
    return Val.list(seq_of(vals) if isinstance(vals, (list, tuple)) else vals)


def VTuple(vals):
    return Val.tuple(seq_of(vals) if isinstance(vals, (list, tuple)) else vals)


EMPTY_KEYS = z3.K(z3.StringSort(), z3.BoolVal(False))
EMPTY_VALS = z3.K(z3.StringSort(), NONE)

_dict_ids = itertools.count(1)


def fresh_dict_id():
    """A concrete identity tag for a dict created by the code under analysis."""
    return z3.IntVal(1_000_000 + next(_dict_ids))


def VDict(pairs=None, did=None):
    """Concrete-keyed dict literal (keys are python str or z3 String terms)."""
    keys, vals = EMPTY_KEYS, EMPTY_VALS
    n = 0
    seen = []
    for k, v in (pairs or []):
        kk = z3.StringVal(k) if isinstance(k, str) else k
        keys = z3.Store(keys, kk, z3.BoolVal(True))
        vals = z3.Store(vals, kk, v)
        seen.append(kk)
        n += 1
    # size is exact when keys are syntactically distinct concrete strings
    conc = [k for k in seen if z3.is_string_value(k)]
    if len(conc) == len(seen):
        n = len({k.as_string() for k in conc})
        size = z3.IntVal(n)
    else:
        size = z3.FreshInt("dsz")
    return Val.dict(did if did is not None else fresh_dict_id(), keys, vals, size)


# --------------------------------------------------------------------------- tests
is_none = Val.is_none
is_bool = Val.is_bool
is_int = Val.is_int
is_real = Val.is_real
is_str = Val.is_str
is_bytes = Val.is_bytes
is_list = Val.is_list
is_tuple = Val.is_tuple
is_dict = Val.is_dict
is_obj = Val.is_obj
is_fn = Val.is_fn
is_cls = Val.is_cls


def simp(t):
    return z3.simplify(t)


def concrete_bool(t):
    """True/False if the z3 Bool term simplifies to a constant, else None."""
    t = z3.simplify(t)
    if z3.is_true(t):
        return True
    if z3.is_false(t):
        return False
    return None


def truthy(v):
    """Python truthiness of a Val as a z3 Bool.  Instances are truthy (no __bool__/__len__
    on the classes the subset meets; recorded as an assumption)."""
    return z3.If(
        is_none(v), False,
        z3.If(is_bool(v), Val.b(v),
        z3.If(is_int(v), Val.i(v) != 0,
        z3.If(is_real(v), Val.r(v) != 0,
        z3.If(is_str(v), z3.Length(Val.s(v)) > 0,
        z3.If(is_bytes(v), z3.Length(Val.bs(v)) > 0,
        z3.If(is_list(v), z3.Length(Val.items(v)) > 0,
        z3.If(is_tuple(v), z3.Length(Val.titems(v)) > 0,
        z3.If(is_dict(v), Val.dsize(v) > 0, True)))))))))


def is_num(v):
    return z3.Or(is_bool(v), is_int(v), is_real(v))


def num_val(v):
    """Numeric value (Real) of a bool/int/real Val."""
    return z3.If(is_bool(v), z3.If(Val.b(v), z3.RealVal(1), z3.RealVal(0)),
                 z3.If(is_int(v), z3.ToReal(Val.i(v)), Val.r(v)))


def int_like(v):
    return z3.Or(is_bool(v), is_int(v))


def int_val(v):
    return z3.If(is_bool(v), z3.If(Val.b(v), 1, 0), Val.i(v))


def py_eq(a, b):
    """Python `==` on Vals as a z3 Bool.
    numbers compare by value across bool/int/float; dicts by content (identity tag ignored);
    everything else structurally (so [1] == [True] is *not* identified: imprecision noted)."""
    sa, sb = z3.simplify(a), z3.simplify(b)
    # fast paths on known constructors
    ka, kb = ctor_name(sa), ctor_name(sb)
    if ka is not None and kb is not None:
        numeric = {"bool", "int", "real"}
        if ka in numeric and kb in numeric:
            if ka == kb:
                return sa == sb
            return num_val(sa) == num_val(sb)
        if ka != kb:
            return z3.BoolVal(False)
        if ka == "dict":
            return dict_eq(sa, sb)
        return sa == sb
    if ka is not None and ka in ("str", "none", "obj", "bytes", "fn", "cls"):
        return sa == sb
    if kb is not None and kb in ("str", "none", "obj", "bytes", "fn", "cls"):
        return sa == sb
    return z3.If(
        z3.And(is_num(sa), is_num(sb)), num_val(sa) == num_val(sb),
        z3.If(z3.And(is_dict(sa), is_dict(sb)), dict_eq(sa, sb), sa == sb))


def dict_eq(a, b):
    return z3.And(Val.dkeys(a) == Val.dkeys(b), Val.dvals(a) == Val.dvals(b))


def ctor_name(t):
    """Name of the outermost Val constructor if syntactically known."""
    if z3.is_app(t) and t.sort() == Val:
        d = t.decl()
        n = d.name()
        if n in ("none", "bool", "int", "real", "str", "bytes", "list", "tuple",
                 "dict", "obj", "fn", "cls") and d.kind() == z3.Z3_OP_DT_CONSTRUCTOR:
            return n
    return None


def type_name_term(v):
    """The python type name of a builtin-valued Val as a z3 String (for messages)."""
    return z3.If(is_none(v), z3.StringVal("NoneType"),
           z3.If(is_bool(v), z3.StringVal("bool"),
           z3.If(is_int(v), z3.StringVal("int"),
           z3.If(is_real(v), z3.StringVal("float"),
           z3.If(is_str(v), z3.StringVal("str"),
           z3.If(is_bytes(v), z3.StringVal("bytes"),
           z3.If(is_list(v), z3.StringVal("list"),
           z3.If(is_tuple(v), z3.StringVal("tuple"),
           z3.If(is_dict(v), z3.StringVal("dict"), z3.StringVal("object"))))))))))


# uninterpreted helpers shared by prelude and contracts
str_of = z3.Function("str_of", Val, z3.StringSort())       # str(x) for non-str x
repr_of = z3.Function("repr_of", Val, z3.StringSort())


def lift(x):
    """Concrete python value -> Val term (None/bool/int/float/str/bytes/list/tuple/dict[str])."""
    if x is None:
        return NONE
    if isinstance(x, bool):
        return VBool(x)
    if isinstance(x, int):
        return VInt(x)
    if isinstance(x, float):
        return VReal(repr(x))
    if isinstance(x, str):
        return VStr(x)
    if isinstance(x, (bytes, bytearray)):
        return VBytes(x)
    if isinstance(x, list):
        return VList([lift(e) for e in x])
    if isinstance(x, tuple):
        return VTuple([lift(e) for e in x])
    if isinstance(x, dict):
        return VDict([(k, lift(v)) for k, v in x.items()])
    raise TypeError(f"cannot lift {type(x).__name__}")


def fresh_val(prefix="v"):
    return z3.Const(fresh_name(prefix), Val)


# --------------------------------------------------------------------------- model decoding
def _unescape(s: str) -> str:
    if "\\u{" not in s:
        return s
    out, i = [], 0
    while i < len(s):
        if s.startswith("\\u{", i):
            j = s.index("}", i)
            out.append(chr(int(s[i + 3:j], 16)))
            i = j + 1
        else:
            out.append(s[i])
            i += 1
    return "".join(out)


def _seq_elems(t):
    """elements of an evaluated Seq term (empty / unit / concat of those)"""
    if z3.is_app(t):
        k = t.decl().kind()
        if k == z3.Z3_OP_SEQ_EMPTY:
            return []
        if k == z3.Z3_OP_SEQ_UNIT:
            return [t.arg(0)]
        if k == z3.Z3_OP_SEQ_CONCAT:
            out = []
            for c in t.children():
                r = _seq_elems(c)
                if r is None:
                    return None
                out.extend(r)
            return out
    return None


def decode(t, depth=0):
    """Evaluated Val term -> python data (best effort; unknown parts become strings)."""
    if depth > 6:
        return "..."
    t = z3.simplify(t)
    if t.sort() == Val:
        cn = ctor_name(t)
        if cn == "none":
            return None
        if cn == "bool":
            return z3.is_true(t.arg(0))
        if cn == "int":
            a = t.arg(0)
            return a.as_long() if z3.is_int_value(a) else str(a)
        if cn == "real":
            a = t.arg(0)
            try:
                return float(a.as_fraction())
            except Exception:
                return str(a)
        if cn in ("str", "bytes"):
            a = t.arg(0)
            if z3.is_string_value(a):
                s = _unescape(a.as_string())
                return s if cn == "str" else {"$bytes": s}
            return str(a)
        if cn in ("list", "tuple"):
            el = _seq_elems(t.arg(0))
            if el is None:
                return str(t)[:200]
            r = [decode(e, depth + 1) for e in el]
            return r if cn == "list" else {"$tuple": r}
        if cn == "obj":
            return {"$obj": str(t.arg(0))}
        if cn == "dict":
            keys = {}
            ks, vs = t.arg(1), t.arg(2)
            # walk the store chain of the key set
            present, cur = {}, ks
            while z3.is_store(cur):
                k, b = cur.arg(1), cur.arg(2)
                if z3.is_string_value(k):
                    present.setdefault(_unescape(k.as_string()), z3.is_true(b))
                cur = cur.arg(0)
            vals, cur = {}, vs
            while z3.is_store(cur):
                k, v = cur.arg(1), cur.arg(2)
                if z3.is_string_value(k):
                    vals.setdefault(_unescape(k.as_string()), v)
                cur = cur.arg(0)
            out = {}
            for k, p in present.items():
                if p:
                    out[k] = decode(vals[k], depth + 1) if k in vals else None
            return out
        if cn in ("fn", "cls"):
            return {"$" + cn: str(t.arg(0))}
        return str(t)[:200]
    if z3.is_int_value(t):
        return t.as_long()
    if z3.is_true(t) or z3.is_false(t):
        return z3.is_true(t)
    if z3.is_string_value(t):
        return _unescape(t.as_string())
    if z3.is_rational_value(t):
        return float(t.as_fraction())
    if z3.is_seq(t) and not z3.is_string(t):
        el = _seq_elems(t)
        if el is not None:
            return [decode(e, depth + 1) for e in el]
    return str(t)[:200]
