"""Symbolic interpreter for the Python subset (see DESIGN.md section 2).

Execution model: *replay-based path exploration*.  A function under contract is executed from its
entry once per path; every data-dependent decision goes through `Interp.choose`, which consults the
decision prefix of the path being replayed and, past the prefix, asks the solver which sides are
feasible.  Unexplored alternatives are pushed on a work list.  This keeps the interpreter in direct
style (python exceptions model python exceptions, state is mutated in place) at the price of
re-executing path prefixes.

Loops are cut at the head with the invariant supplied by the sidecar contract (no unrolling):
assert on entry, havoc the write set, assume, run the body once, assert at every back edge.
The write set is inferred by iterating whole-function exploration to a fixpoint (round k havocs what
rounds < k saw the body write).
"""
from __future__ import annotations

import ast
import os
import time
from dataclasses import dataclass, field
from typing import Any, Callable, Dict, List, Optional, Tuple

import z3

from . import vals as V
from .vals import Val
from .loader import Repo, FuncInfo, ClassInfo, ModuleInfo, Unsupported

IntArr = z3.ArraySort(z3.IntSort(), Val)
BoolArr = z3.ArraySort(z3.IntSort(), z3.BoolSort())
ClsArr = z3.ArraySort(z3.IntSort(), z3.IntSort())


# --------------------------------------------------------------------------- control signals
class PyRaise(Exception):
    """A python exception in the interpreted program; .val is the exception object (Val.obj)."""

    def __init__(self, val, cls_name):
        self.val = val
        self.cls_name = cls_name          # concrete class name, or 'AnyException'


class ReturnSig(Exception):
    def __init__(self, val):
        self.val = val


class BreakSig(Exception):
    pass


class ContinueSig(Exception):
    pass


class PathEnd(Exception):
    """The current path stops here (back edge checked, or an assumption is infeasible)."""

    def __init__(self, why=""):
        self.why = why


class EngineError(Exception):
    """Internal inconsistency: reported as CHECKER-ERROR (exit 3), never as a violation."""


# --------------------------------------------------------------------------- descriptors
@dataclass
class ClassDesc:
    cid: int
    name: str
    bases: List[str]                     # names of all proper ancestors (transitive)
    kind: str                            # 'exc' | 'repo' | 'env' | 'builtin'
    info: Any = None                     # ClassInfo for repo classes, EnvClass for env classes


@dataclass
class FnDesc:
    kind: str          # func | bound | lambda | closure | builtin | envmethod | extern | module | pyconst | coro | envfn | classmethod
    payload: Any = None
    recv: Any = None                     # receiver Val for bound/envmethod
    frame: Any = None                    # defining frame for closures/lambdas
    name: str = ""


@dataclass
class Obligation:
    name: str
    pc: Tuple
    goal: Any
    func: str
    line: int
    path_id: int
    meta: dict = field(default_factory=dict)
    trace: Tuple = ()


@dataclass
class Frame:
    fid: int
    func: Optional[FuncInfo]
    module: Optional[ModuleInfo]
    vars: Dict[str, Any]
    parent: Optional["Frame"] = None     # lexical parent (closures)
    nonlocals: set = field(default_factory=set)
    depth: int = 0


BUILTIN_EXC = {
    # name: direct base
    "BaseException": None,
    "Exception": "BaseException",
    "CancelledError": "BaseException",          # asyncio.CancelledError / anyio cancellation
    "KeyboardInterrupt": "BaseException",
    "SystemExit": "BaseException",
    "GeneratorExit": "BaseException",
    "BaseExceptionGroup": "BaseException",
    "ArithmeticError": "Exception",
    "ZeroDivisionError": "ArithmeticError",
    "AssertionError": "Exception",
    "AttributeError": "Exception",
    "LookupError": "Exception",
    "KeyError": "LookupError",
    "IndexError": "LookupError",
    "TypeError": "Exception",
    "ValueError": "Exception",
    "UnicodeError": "ValueError",
    "UnicodeDecodeError": "UnicodeError",
    "UnicodeEncodeError": "UnicodeError",
    "JSONDecodeError": "ValueError",
    "PydanticValidationError": "ValueError",
    "RuntimeError": "Exception",
    "NotImplementedError": "RuntimeError",
    "StopIteration": "Exception",
    "StopAsyncIteration": "Exception",
    "OSError": "Exception",
    "TimeoutError": "OSError",
    "FileNotFoundError": "OSError",
    "PermissionError": "OSError",
    "ConnectionError": "OSError",
    "BrokenPipeError": "ConnectionError",
    "ProcessLookupError": "OSError",
    "ImportError": "Exception",
    "NameError": "Exception",
    "UnboundLocalError": "NameError",
    # anyio
    "EndOfStream": "Exception",
    "ClosedResourceError": "Exception",
    "BrokenResourceError": "Exception",
    "WouldBlock": "Exception",
    "BusyResourceError": "Exception",
    # httpx (all derive from Exception; the hierarchy below HTTPError is not needed)
    "HTTPError": "Exception",
    "ConnectError": "HTTPError",
    "ReadTimeout": "HTTPError",
    "RemoteProtocolError": "HTTPError",
    # the unknown exception a user callback / handler / dependency may raise: a proper
    # subclass of Exception about which nothing else is known
    "AnyException": "Exception",
}
EXTERN_EXC_ALIASES = {
    "asyncio.TimeoutError": "TimeoutError",
    "asyncio.CancelledError": "CancelledError",
    "asyncio.exceptions.CancelledError": "CancelledError",
    "builtins.BaseExceptionGroup": "BaseExceptionGroup",
    "anyio.EndOfStream": "EndOfStream",
    "anyio.ClosedResourceError": "ClosedResourceError",
    "anyio.BrokenResourceError": "BrokenResourceError",
    "anyio.WouldBlock": "WouldBlock",
    "json.JSONDecodeError": "JSONDecodeError",
    "orjson.JSONDecodeError": "JSONDecodeError",        # subclass of json.JSONDecodeError
    "orjson.JSONEncodeError": "TypeError",              # subclass of TypeError
    "json.decoder.JSONDecodeError": "JSONDecodeError",
    "pydantic.ValidationError": "PydanticValidationError",
    "httpx.HTTPError": "HTTPError",
    "httpx.ConnectError": "ConnectError",
    "httpx.ReadTimeout": "ReadTimeout",
}

BUILTIN_TYPES = ["str", "int", "bool", "float", "list", "dict", "tuple", "bytes", "set", "object", "type",
                 "NoneType", "frozenset", "bytearray"]

# attribute names that exist on builtin values (so getattr(x, name, default) does not fall to default)
BUILTIN_ATTRS = {
    "str": {"split", "strip", "rstrip", "lstrip", "startswith", "endswith", "lower", "upper", "join",
            "replace", "encode", "isdigit", "format", "find", "partition", "splitlines", "count", "index",
            "title", "capitalize", "splitlines", "isalpha", "isalnum", "zfill", "rsplit", "removeprefix", "removesuffix"},
    "bytes": {"decode", "split", "strip", "startswith", "endswith", "find", "replace"},
    "list": {"append", "extend", "pop", "copy", "index", "count", "insert", "remove", "reverse", "sort", "clear"},
    "tuple": {"index", "count"},
    "dict": {"get", "items", "keys", "values", "pop", "copy", "update", "clear", "setdefault", "popitem", "fromkeys"},
    "int": {"bit_length", "real", "imag", "numerator", "denominator", "conjugate", "to_bytes"},
    "bool": {"bit_length", "real", "imag", "numerator", "denominator", "conjugate"},
    "real": {"is_integer", "real", "imag", "conjugate", "hex"},
    "none": set(),
}


class Context:
    """Per-verification-run tables shared by all paths of all functions."""

    def __init__(self, repo: Repo = None):
        self.repo = repo or Repo()
        self.classes: List[ClassDesc] = []
        self.class_by_name: Dict[str, ClassDesc] = {}
        self.fn_table: List[FnDesc] = []
        self.fn_index: Dict[Any, int] = {}
        self.h0: Dict[str, Any] = {}
        self.a0: Dict[str, Any] = {}
        self.cls0 = z3.Const("CLS0", ClsArr)
        self.contracts: Dict[str, Any] = {}          # func key -> contract used modularly at call sites
        self.env_classes: Dict[str, Any] = {}
        self.extern_handlers: Dict[str, Callable] = {}
        self.loop_writes: Dict[Any, set] = {}         # loop key -> inferred write set (fixpoint)
        self.stats = dict(paths=0, feasibility_checks=0, feasibility_unknown=0, forks=0)
        self.dropped: set = set()                     # what the interpretation dropped (for evidence)
        self.assumptions: set = set()
        self.solver_timeout_ms = 4000
        self.max_paths = 4000
        self.max_depth = 12
        for n in BUILTIN_TYPES:
            self._add_class(n, [], "builtin")
        for n in BUILTIN_EXC:
            self._add_class(n, self._exc_bases(n), "exc")

    # -- classes ---------------------------------------------------------------
    def _exc_bases(self, n):
        out = []
        b = BUILTIN_EXC.get(n)
        while b:
            out.append(b)
            b = BUILTIN_EXC.get(b)
        if n == "TimeoutError":
            pass
        return out

    def _add_class(self, name, bases, kind, info=None) -> ClassDesc:
        if name in self.class_by_name:
            return self.class_by_name[name]
        cd = ClassDesc(len(self.classes), name, list(bases), kind, info)
        self.classes.append(cd)
        self.class_by_name[name] = cd
        return cd

    def repo_class(self, ci: ClassInfo) -> ClassDesc:
        key = f"{ci.module.name}.{ci.name}"
        if key in self.class_by_name:
            return self.class_by_name[key]
        bases = []
        for n in self.repo.base_names(ci)[1:]:
            n2 = EXTERN_EXC_ALIASES.get(n, n)
            if n2 not in bases:
                bases.append(n2)
        # transitive closure through builtin exception bases
        for b in list(bases):
            for bb in self._exc_bases(b):
                if bb not in bases:
                    bases.append(bb)
        # repo ancestors are referred to by their qualified key as well
        for c in self.repo.mro(ci)[1:]:
            bases.append(f"{c.module.name}.{c.name}")
        cd = self._add_class(key, bases, "repo", ci)
        cd.short = ci.name
        return cd

    def env_class(self, env) -> ClassDesc:
        cd = self._add_class(env.name, list(getattr(env, "bases", [])), "env", env)
        cd.info = env                      # the latest instance carries the per-path hooks
        self.env_classes[env.name] = env
        return cd

    def cls_named(self, name) -> ClassDesc:
        name = EXTERN_EXC_ALIASES.get(name, name)
        if name not in self.class_by_name:
            raise Unsupported(f"unknown class {name}")
        return self.class_by_name[name]

    def is_subclass(self, cd: ClassDesc, other: ClassDesc) -> bool:
        if cd.cid == other.cid:
            return True
        if other.name in cd.bases:
            return True
        if other.kind == "repo" and getattr(other, "short", None) in cd.bases and cd.kind == "repo":
            # same short name reached through an import chain
            return f"{other.info.module.name}.{other.info.name}" in cd.bases
        if other.name == "object":
            return True
        return False

    def subclasses_of(self, other: ClassDesc) -> List[ClassDesc]:
        return [c for c in self.classes if self.is_subclass(c, other)]

    # -- static values -----------------------------------------------------------
    def fn_val(self, desc: FnDesc, key=None):
        if key is not None and key in self.fn_index:
            return V.VFn(self.fn_index[key])
        self.fn_table.append(desc)
        fid = len(self.fn_table) - 1
        if key is not None:
            self.fn_index[key] = fid
        return V.VFn(fid)

    def fn_desc(self, v) -> Optional[FnDesc]:
        v = z3.simplify(v)
        if V.ctor_name(v) == "fn":
            a = z3.simplify(Val.fid(v))
            if z3.is_int_value(a):
                return self.fn_table[a.as_long()]
        return None

    def cls_desc(self, v) -> Optional[ClassDesc]:
        v = z3.simplify(v)
        if V.ctor_name(v) == "cls":
            a = z3.simplify(Val.cid(v))
            if z3.is_int_value(a):
                return self.classes[a.as_long()]
        return None

    def initial_heap(self, name):
        if name not in self.h0:
            self.h0[name] = z3.Const(f"H0_{name}", IntArr)
            self.a0[name] = z3.Const(f"A0_{name}", BoolArr)
        return self.h0[name], self.a0[name]


class State:
    def __init__(self, ctx: Context):
        self.ctx = ctx
        self.heap: Dict[str, Any] = {}
        self.has: Dict[str, Any] = {}
        self.cls = ctx.cls0
        self.pc: List[Any] = []
        self.now = z3.Real("now0")          # ghost clock
        self.scopes: List[dict] = []         # active cancel scopes (innermost last)
        self.next_oid = 1_000_000
        self.handling: List[Any] = []        # exceptions being handled (for bare raise)

    def field(self, name):
        if name not in self.heap:
            h, a = self.ctx.initial_heap(name)
            self.heap[name] = h
            # objects allocated during the run (oid >= 10^6) have no attribute until it is stored
            o = z3.Int("o!h")
            self.has[name] = z3.Lambda([o], z3.And(o < 1_000_000, z3.Select(a, o)))
        return self.heap[name], self.has[name]


_SYM_CACHE: Dict[int, tuple] = {}          # ast id -> (term kept alive so the id cannot be reused, symbols)


def symbols_of(t) -> frozenset:
    """names of the uninterpreted constants / functions occurring in t (cached per AST node id)"""
    i = t.get_id()
    r = _SYM_CACHE.get(i)
    if r is not None and r[0].eq(t):
        return r[1]
    out = set()
    seen = set()
    stack = [t]
    while stack:
        x = stack.pop()
        xi = x.get_id()
        if xi in seen:
            continue
        seen.add(xi)
        if z3.is_quantifier(x):
            stack.append(x.body())
            continue
        if z3.is_app(x):
            d = x.decl()
            if d.kind() == z3.Z3_OP_UNINTERPRETED:
                out.add(d.name())
            stack.extend(x.children())
    r = frozenset(out)
    if len(_SYM_CACHE) > 100000:
        _SYM_CACHE.clear()
    _SYM_CACHE[i] = (t, r)
    return r


def has_quantifier(t) -> bool:
    seen = set()
    stack = [t]
    while stack:
        x = stack.pop()
        i = x.get_id()
        if i in seen:
            continue
        seen.add(i)
        if z3.is_quantifier(x):
            if not x.is_lambda():
                return True
            stack.append(x.body())        # array comprehension: not a quantified formula
            continue
        if z3.is_app(x):
            stack.extend(x.children())
    return False


class Interp:
    """Executes ONE path of one top-level function."""

    def __init__(self, ctx: Context, prefix: Tuple, path_id: int, worklist: list, recorder=None):
        self.ctx = ctx
        self.st = State(ctx)
        self.prefix = prefix
        self.decisions: List[Any] = []
        self.path_id = path_id
        self.worklist = worklist
        self.solver = z3.Solver()
        self.solver.set("timeout", ctx.solver_timeout_ms)
        self.solver_pcs: List[Any] = []
        self.str_facts: Dict[str, Dict[int, Any]] = {"nocontain": {}, "prefix": {}, "suffix": {}, "minlen": {}}
        self.counter = 0
        self.frames: List[Frame] = []
        self.frame_counter = 0
        self.obligations: List[Obligation] = []
        self.trace: List[str] = []
        self.write_recorders: List[Tuple[Any, set]] = []
        self.call_chain: List[str] = []
        self.pure_depth = 0
        self.ghost: Dict[str, Any] = {}       # per-path ghost registers usable by contracts
        self.reads: List[Tuple[str, Any]] = []
        self.cur_line = 0
        self.cur_func = ""
        self.any_exc_tests: Dict[Any, Any] = {}

    # -- fresh names -------------------------------------------------------------
    def fresh(self, prefix, sort=None):
        self.counter += 1
        n = f"{prefix}~{self.counter}"
        return z3.Const(n, sort if sort is not None else Val)

    def fresh_int(self, prefix):
        return self.fresh(prefix, z3.IntSort())

    def fresh_bool(self, prefix):
        return self.fresh(prefix, z3.BoolSort())

    def fresh_real(self, prefix):
        return self.fresh(prefix, z3.RealSort())

    # -- path condition ----------------------------------------------------------
    def assume(self, cond):
        """Add an assumption; ends the path if it is (syntactically or provably) infeasible.
        Quantified assumptions are kept for the obligations but not given to the (incremental, short
        time-out) feasibility solver: fewer assumptions there only means more paths are explored."""
        c = V.concrete_bool(cond)
        if c is True:
            return
        if c is False:
            raise PathEnd("assumption false")
        if z3.is_and(cond) and has_quantifier(cond):
            for c2 in cond.children():
                self.assume(c2)
            return
        self.st.pc.append(cond)
        if not has_quantifier(cond):
            self.solver.add(cond)
            self.solver_pcs.append(cond)
            self._record_fact(cond)

    def assume_checked(self, cond):
        self.assume(cond)
        if len(self.decisions) >= len(self.prefix):
            r = self._check()
            if r == z3.unsat:
                raise PathEnd("assumption infeasible")

    # -- a small syntactic fact base about strings (keeps trivial string questions away from the solver)
    def _record_fact(self, c):
        try:
            if z3.is_and(c):
                for x in c.children():
                    self._record_fact(x)
                return
            if z3.is_not(c):
                a = c.arg(0)
                if z3.is_app(a) and a.decl().kind() == z3.Z3_OP_SEQ_CONTAINS and z3.is_string_value(a.arg(1)):
                    t = a.arg(0)
                    self.str_facts["nocontain"].setdefault(t.get_id(), (t, set()))[1].add(V._unescape(a.arg(1).as_string()))
                return
            if z3.is_app(c):
                k = c.decl().kind()
                if k == z3.Z3_OP_SEQ_PREFIX and z3.is_string_value(c.arg(0)):
                    t = c.arg(1)
                    self.str_facts["prefix"].setdefault(t.get_id(), (t, set()))[1].add(V._unescape(c.arg(0).as_string()))
                    self.str_facts["minlen"][t.get_id()] = (t, max(1, self.str_facts["minlen"].get(t.get_id(), (t, 0))[1]))
                elif k == z3.Z3_OP_SEQ_SUFFIX and z3.is_string_value(c.arg(0)):
                    t = c.arg(1)
                    self.str_facts["suffix"].setdefault(t.get_id(), (t, set()))[1].add(V._unescape(c.arg(0).as_string()))
                    self.str_facts["minlen"][t.get_id()] = (t, max(1, self.str_facts["minlen"].get(t.get_id(), (t, 0))[1]))
        except Exception:
            pass

    def fact(self, kind, t):
        e = self.str_facts[kind].get(t.get_id())
        if e is not None and e[0].eq(t):
            return e[1]
        return None

    def _sliced(self, extra):
        """Cone of influence: the ground path-condition conjuncts that (transitively) share a symbol with the
        decision.  Dropping unrelated conjuncts only over-approximates feasibility (sound); it keeps a slow
        theory (strings from one branch) from slowing every later, unrelated decision."""
        rel = set()
        for e in extra:
            rel |= symbols_of(e)
        if not rel:
            return None
        pcs = self.solver_pcs
        syms = [symbols_of(c) for c in pcs]
        included = [False] * len(pcs)
        changed = True
        n = 0
        while changed:
            changed = False
            for k, sy in enumerate(syms):
                if not included[k] and sy & rel:
                    included[k] = True
                    rel |= sy
                    n += 1
                    changed = True
        if n * 10 > len(pcs) * 6:          # slice not much smaller than everything: use the incremental solver
            return None
        return [pcs[k] for k in range(len(pcs)) if included[k]]

    def _check(self, *extra):
        self.ctx.stats["feasibility_checks"] += 1
        t0 = time.time()
        sl = self._sliced(extra) if (extra and len(self.solver_pcs) >= 12) else None
        if sl is not None:
            s2 = z3.Solver()
            s2.set("timeout", self.ctx.solver_timeout_ms)
            for c in sl:
                s2.add(c)
            r = s2.check(*extra)
            self.ctx.stats["sliced_checks"] = self.ctx.stats.get("sliced_checks", 0) + 1
        else:
            r = self.solver.check(*extra)
        dt = time.time() - t0
        if r == z3.unknown:
            self.ctx.stats["feasibility_unknown"] += 1
        if dt > 1.0 and os.environ.get("PYVC_DEBUG"):
            print(f"[slow check {dt:.1f}s {r}] {self.cur_func}:{self.cur_line} extra={str(extra)[:300]}", flush=True)
        return r

    def choose(self, cond, label="") -> bool:
        """Decide a z3 Bool on this path (forking when both sides are feasible)."""
        c = V.concrete_bool(cond)
        if c is not None:
            return c
        idx = len(self.decisions)
        if idx < len(self.prefix):
            d = self.prefix[idx]
            self.decisions.append(d)
            self._add_pc(cond if d else z3.Not(cond))
            self.trace.append(f"{self.cur_func}:{self.cur_line}:{label}={'T' if d else 'F'}")
            return d
        fd = self._fast_decide(cond)
        if fd is not None:
            can_t, can_f = fd, not fd
        else:
            can_t = self._check(cond) != z3.unsat
            can_f = self._check(z3.Not(cond)) != z3.unsat
        if not can_t and not can_f:
            raise PathEnd("infeasible")
        if can_t and can_f:
            self.ctx.stats["forks"] += 1
            self.worklist.append(tuple(self.decisions) + (False,))
            d = True
        else:
            d = can_t
        self.decisions.append(d)
        self._add_pc(cond if d else z3.Not(cond))
        self.trace.append(f"{self.cur_func}:{self.cur_line}:{label}={'T' if d else 'F'}")
        return d

    def _fast_decide(self, cond):
        """Decide a condition that only speaks about lengths of strings/sequences by abstracting every Length(t) to a
        non-negative integer (plus known minimum lengths).  Returns True/False when the abstraction decides it."""
        try:
            c = z3.simplify(cond)
            lens = {}
            ok = [True]

            def walk(x):
                if z3.is_app(x):
                    if x.decl().kind() == z3.Z3_OP_SEQ_LENGTH:
                        lens[x.get_id()] = x
                        return
                    if x.sort().kind() in (z3.Z3_SEQ_SORT, z3.Z3_DATATYPE_SORT, z3.Z3_ARRAY_SORT):
                        ok[0] = False
                        return
                    if x.decl().kind() == z3.Z3_OP_UNINTERPRETED and x.num_args() == 0:
                        ok[0] = False          # a free integer/bool: constrained elsewhere, not by lengths alone
                        return
                    for ch in x.children():
                        walk(ch)
                elif z3.is_quantifier(x):
                    ok[0] = False
            walk(c)
            if not ok[0] or not lens:
                return None
            subs, side = [], []
            atoms = {}

            def len_expr(u):
                u = z3.simplify(u)
                if z3.is_string_value(u):
                    return z3.IntVal(len(V._unescape(u.as_string())))
                if z3.is_app(u) and u.decl().kind() == z3.Z3_OP_SEQ_CONCAT:
                    return z3.Sum([len_expr(ch) for ch in u.children()])
                if z3.is_app(u) and u.decl().kind() == z3.Z3_OP_SEQ_UNIT:
                    return z3.IntVal(1)
                key = u.get_id()
                if key not in atoms:
                    v = z3.Int(f"len!abs{len(atoms)}")
                    ml = self.fact("minlen", u)
                    side.append(v >= (ml if ml else 0))
                    atoms[key] = (u, v)
                return atoms[key][1]
            for k, t in lens.items():
                subs.append((t, len_expr(t.arg(0))))
            a = z3.substitute(c, *subs)
            s1 = z3.Solver()
            s1.set("timeout", 500)
            s1.add(*side)
            if s1.check(a) == z3.unsat:
                return False
            if s1.check(z3.Not(a)) == z3.unsat:
                return True
        except Exception:
            return None
        return None

    def choose_n(self, n: int, label="") -> int:
        """Nondeterministic choice among n alternatives made by the environment."""
        if n <= 0:
            raise PathEnd("no alternative")
        if n == 1:
            return 0
        idx = len(self.decisions)
        if idx < len(self.prefix):
            d = self.prefix[idx]
            self.decisions.append(d)
            self.trace.append(f"{self.cur_func}:{self.cur_line}:{label}#{d}")
            return d
        for k in range(n - 1, 0, -1):
            self.worklist.append(tuple(self.decisions) + (k,))
        self.ctx.stats["forks"] += n - 1
        self.decisions.append(0)
        self.trace.append(f"{self.cur_func}:{self.cur_line}:{label}#0")
        return 0

    def _add_pc(self, cond):
        self.st.pc.append(cond)
        self.solver.add(cond)
        self.solver_pcs.append(cond)

    def truth(self, v, label="") -> bool:
        """Python truthiness of a Val, decided on this path."""
        return self.choose(V.truthy(v), label or "truthy")

    def oblige(self, name, goal, **meta):
        g = V.concrete_bool(goal)
        self.obligations.append(Obligation(name, tuple(self.st.pc), z3.BoolVal(True) if g is True else goal,
                                           self.cur_func, self.cur_line, self.path_id, meta,
                                           tuple(self.trace[-40:])))

    # -- heap --------------------------------------------------------------------
    def new_oid(self):
        o = self.st.next_oid
        self.st.next_oid += 1
        return o

    def new_object(self, cd: ClassDesc, attrs: Dict[str, Any] = None):
        oid = self.new_oid()
        self.st.cls = z3.Store(self.st.cls, oid, cd.cid)
        ov = V.VObj(oid)
        for k, v in (attrs or {}).items():
            self.set_attr(ov, k, v, record=False)
        return ov

    def oid_of(self, ov):
        return z3.simplify(Val.oid(ov))

    def get_field(self, ov, name):
        h, a = self.st.field(name)
        o = self.oid_of(ov)
        return z3.simplify(z3.Select(h, o)), z3.simplify(z3.Select(a, o))

    def set_attr(self, ov, name, val, record=True):
        h, a = self.st.field(name)
        o = self.oid_of(ov)
        self.st.heap[name] = z3.Store(h, o, val)
        self.st.has[name] = z3.Store(a, o, z3.BoolVal(True))
        if record:
            self.record_write(("heap", name, o.as_long() if z3.is_int_value(o) else None))

    def del_attr(self, ov, name):
        h, a = self.st.field(name)
        o = self.oid_of(ov)
        self.st.has[name] = z3.Store(a, o, z3.BoolVal(False))
        self.record_write(("heapdel", name, o.as_long() if z3.is_int_value(o) else None))

    def record_write(self, cell):
        for _, s in self.write_recorders:
            s.add(cell)

    def class_of(self, ov) -> Optional[ClassDesc]:
        """Concrete class of an object value if it is determined on this path."""
        c = z3.simplify(z3.Select(self.st.cls, self.oid_of(ov)))
        if z3.is_int_value(c):
            return self.ctx.classes[c.as_long()]
        # ask the solver whether the path condition pins it down
        r0 = self._check()
        if r0 != z3.sat:
            if os.environ.get("PYVC_DEBUG"):
                print(f"[class_of] base check {r0} at {self.cur_func}:{self.cur_line}", flush=True)
            return None
        m = self.solver.model()
        cand = m.eval(c, model_completion=True)
        if not z3.is_int_value(cand):
            return None
        r1 = self._check(c != cand)
        if os.environ.get("PYVC_DEBUG") and r1 != z3.unsat:
            print(f"[class_of] not pinned: cand={cand} r={r1} at {self.cur_func}:{self.cur_line} oid={str(self.oid_of(ov))[:150]}\n   pcs=" + "\n       ".join(str(x)[:160].replace("\n", " ") for x in self.solver_pcs[-6:]), flush=True)
        if r1 == z3.unsat:
            k = cand.as_long()
            if 0 <= k < len(self.ctx.classes):
                return self.ctx.classes[k]
        return None

    # -- exceptions ----------------------------------------------------------------
    def make_exc(self, cls_name: str, msg=None, **attrs):
        cd = self.ctx.cls_named(cls_name)
        a = {"__msg__": msg if msg is not None else V.VStr("")}
        a.update(attrs)
        ev = self.new_object(cd, a)
        return ev

    def throw(self, cls_name: str, msg=None, **attrs):
        if isinstance(msg, str):
            msg = V.VStr(msg)
        raise PyRaise(self.make_exc(cls_name, msg, **attrs), cls_name)

    def exc_matches(self, e: PyRaise, target: ClassDesc) -> bool:
        """Does exception e match `except target`? (decided on this path)"""
        cd = self.ctx.cls_named(e.cls_name) if e.cls_name in self.ctx.class_by_name else None
        if cd is None:
            cd = self.class_of(e.val)
        if cd is None:
            raise Unsupported("exception of undetermined class")
        if cd.name == "AnyException":
            if target.name in ("Exception", "BaseException", "AnyException", "object"):
                return True
            if not self.ctx.is_subclass(target, self.ctx.cls_named("Exception")):
                return False          # e.g. CancelledError: AnyException is an Exception, never that
            # an unknown Exception subclass may or may not be a `target`
            key = (str(e.val), target.name)
            return bool(self.choose_n(2, f"anyexc_is_{target.name}"))
        return self.ctx.is_subclass(cd, target)
