"""Native semantics of builtins and of methods on str / bytes / list / tuple / dict values.

String functions the solvers do not decide (split/strip/lower on free strings, int() of a free
string, utf-8 coding) are uninterpreted functions; the lemmas that constrain them are ground-
instantiated where they are used and are cross-checked against CPython by the axiom audit.
Strings with a known shape (a concatenation of literals and single characters given by their code
point) are decomposed syntactically into character lists, so split / int() / comparison / replace
reduce to linear integer arithmetic.
"""
from __future__ import annotations

import ast
from typing import List, Optional

import z3

from . import vals as V
from .vals import Val
from .core import FnDesc, PyRaise, PathEnd
from .loader import Unsupported

S = z3.StringSort()
# uninterpreted string helpers
split_of = z3.Function("split_of", S, S, V.SeqVal)          # s.split(sep) as a sequence of str Vals
strip_of = z3.Function("strip_of", S, S)
rstrip_of = z3.Function("rstrip_of", S, S)
lstrip_of = z3.Function("lstrip_of", S, S)
rstrip_chars = z3.Function("rstrip_chars", S, S, S)
lower_of = z3.Function("lower_of", S, S)
upper_of = z3.Function("upper_of", S, S)
replace_all = z3.Function("replace_all", S, S, S, S)
int_ok = z3.Function("int_ok", S, z3.BoolSort())             # int(s) succeeds
int_of = z3.Function("int_of", S, z3.IntSort())
float_ok = z3.Function("float_ok", Val, z3.BoolSort())
float_of = z3.Function("float_of", Val, z3.RealSort())
utf8_enc = z3.Function("utf8_enc", S, S)                     # str -> bytes (latin-1 carried string)
utf8_ok = z3.Function("utf8_ok", S, z3.BoolSort())           # bytes decodable
format_spec_of = z3.Function("format_spec_of", S, S, S)          # format(text of value, spec) -> str
utf8_dec = z3.Function("utf8_dec", S, S)
utf8_dec_lenient = z3.Function("utf8_dec_lenient", S, S, S)    # (errors mode, bytes) -> str
isdigit_of = z3.Function("isdigit_of", S, z3.BoolSort())
join_of = z3.Function("join_of", S, V.SeqVal, S)
format_of = z3.Function("format_of", S, V.SeqVal, S)
type_of = z3.Function("type_of", Val, Val)
other_decode_ok = z3.Function("other_decode_ok", S, S, z3.BoolSort())
other_decode = z3.Function("other_decode", S, S, S)
bit_or = z3.Function("bit_or", z3.IntSort(), z3.IntSort(), z3.IntSort())
bit_and = z3.Function("bit_and", z3.IntSort(), z3.IntSort(), z3.IntSort())
opaque_contains = z3.Function("opaque_contains", S, S, z3.BoolSort())


# --------------------------------------------------------------------------- char-list strings
def char_list(t) -> Optional[list]:
    """Decompose a String term into a list of characters: python 1-char strs or z3 Int code terms.
    None if the term is not of known shape."""
    t = z3.simplify(t)
    if z3.is_string_value(t):
        return list(t.as_string()) if _plain(t) else [c for c in _pystr(t)]
    if z3.is_app(t):
        k = t.decl().kind()
        if k == z3.Z3_OP_SEQ_CONCAT:
            out = []
            for c in t.children():
                r = char_list(c)
                if r is None:
                    return None
                out.extend(r)
            return out
        if t.decl().name() == "str.from_code":
            return [t.arg(0)]
    return None


def _plain(t):
    return True


def _pystr(t) -> str:
    """python str of a z3 string value (handles \\u{..} escapes)."""
    s = t.as_string()
    if "\\u{" not in s:
        return s
    out, i = [], 0
    while i < len(s):
        if s.startswith("\\u{", i):
            j = s.index("}", i)
            out.append(chr(int(s[i + 3:j], 16)))
            i = j + 1
        else:
            out.append(s[i])
            i += 1
    return "".join(out)


def pystr(t) -> Optional[str]:
    t = z3.simplify(t)
    if z3.is_string_value(t):
        return _pystr(t)
    return None


def from_chars(chars) -> z3.ExprRef:
    parts, buf = [], []
    for c in chars:
        if isinstance(c, str):
            buf.append(c)
        else:
            if buf:
                parts.append(z3.StringVal("".join(buf)))
                buf = []
            parts.append(z3.StrFromCode(c))
    if buf:
        parts.append(z3.StringVal("".join(buf)))
    if not parts:
        return z3.StringVal("")
    if len(parts) == 1:
        return parts[0]
    return z3.Concat(*parts)


def char_code(c):
    return z3.IntVal(ord(c)) if isinstance(c, str) else c


def _concat_parts(x):
    parts = []

    def flat(t):
        if z3.is_app(t) and t.decl().kind() == z3.Z3_OP_SEQ_CONCAT:
            for c in t.children():
                flat(c)
        else:
            parts.append(t)
    flat(x)
    return parts


def fast_entails(I, cond):
    """True if the fact base shows `cond` holds, None if it cannot tell (never False)."""
    try:
        c = z3.simplify(cond)
        if z3.is_true(c):
            return True
        if z3.is_and(c):
            rs = [fast_entails(I, x) for x in c.children()]
            return True if all(r is True for r in rs) else None
        if z3.is_or(c):
            return True if any(fast_entails(I, x) is True for x in c.children()) else None
        if z3.is_not(c):
            a = c.arg(0)
            if z3.is_app(a) and a.num_args() == 2 and z3.is_string_value(a.arg(0) if a.decl().kind() != z3.Z3_OP_SEQ_CONTAINS else a.arg(1)):
                k = a.decl().kind()
                if k == z3.Z3_OP_SEQ_CONTAINS:
                    needle = _pystr(a.arg(1))
                    for p in _concat_parts(a.arg(0)):
                        if z3.is_string_value(p):
                            if needle in _pystr(p):
                                return None
                        else:
                            f = I.fact("nocontain", p)
                            if not f or not any(n and n in needle for n in f):
                                return None
                    # no part contains (a piece of) the needle; a needle straddling two parts is only excluded for
                    # single-character needles
                    return True if len(needle) == 1 else None
                if k == z3.Z3_OP_SEQ_SUFFIX:
                    ch = _pystr(a.arg(0))
                    if len(ch) != 1:
                        return None
                    for p in reversed(_concat_parts(a.arg(1))):
                        if z3.is_string_value(p):
                            t = _pystr(p)
                            if t:
                                return True if not t.endswith(ch) else None
                            continue
                        f = I.fact("nocontain", p)
                        if not f or ch not in f:
                            return None
                        ml = I.fact("minlen", p)
                        if ml:
                            return True
                    return None
            return None
        if z3.is_app(c) and c.num_args() == 2 and z3.is_string_value(c.arg(0)):
            k = c.decl().kind()
            if k == z3.Z3_OP_SEQ_PREFIX:
                want = _pystr(c.arg(0))
                parts = _concat_parts(c.arg(1))
                if parts and not z3.is_string_value(parts[0]):
                    f = I.fact("prefix", parts[0])
                    if f and any(x.startswith(want) for x in f):
                        return True
                return None
            if k == z3.Z3_OP_SEQ_SUFFIX:
                want = _pystr(c.arg(0))
                parts = _concat_parts(c.arg(1))
                if parts and not z3.is_string_value(parts[-1]):
                    f = I.fact("suffix", parts[-1])
                    if f and any(x.endswith(want) for x in f):
                        return True
                return None
    except Exception:
        return None
    return None


def _unesc(s):
    return V._unescape(s)


def entails(I, cond) -> bool:
    c = V.concrete_bool(cond)
    if c is not None:
        return c
    if fast_entails(I, cond) is True:
        return True
    return I._check(z3.Not(cond)) == z3.unsat


def chars_eq(a, b):
    if len(a) != len(b):
        return z3.BoolVal(False)
    return z3.And([char_code(x) == char_code(y) for x, y in zip(a, b)]) if a else z3.BoolVal(True)


def chars_lt(a, b, strict=True):
    """lexicographic code-point order (python str comparison) on char lists."""
    if not a and not b:
        return z3.BoolVal(not strict)
    if not a:
        return z3.BoolVal(True)
    if not b:
        return z3.BoolVal(False)
    x, y = char_code(a[0]), char_code(b[0])
    return z3.Or(x < y, z3.And(x == y, chars_lt(a[1:], b[1:], strict)))


# --------------------------------------------------------------------------- conversions
def to_str(I, v) -> z3.ExprRef:
    """str(v) as a z3 String."""
    sv = z3.simplify(v)
    cn = V.ctor_name(sv)
    if cn == "str":
        return Val.s(sv)
    if cn == "none":
        return z3.StringVal("None")
    if cn == "bool":
        b = V.concrete_bool(Val.b(sv))
        if b is not None:
            return z3.StringVal("True" if b else "False")
        return z3.If(Val.b(sv), z3.StringVal("True"), z3.StringVal("False"))
    if cn == "int":
        i = z3.simplify(Val.i(sv))
        if z3.is_int_value(i):
            return z3.StringVal(str(i.as_long()))
        return z3.If(i >= 0, z3.IntToStr(i), z3.Concat(z3.StringVal("-"), z3.IntToStr(-i)))
    if cn == "obj":
        cd = I.class_of(sv)
        if cd is not None and (cd.kind == "exc" or "BaseException" in cd.bases or "Exception" in cd.bases):
            m = None
            if cd.kind == "repo":
                m = I.ctx.repo.find_method(cd.info, "__str__")
            if m is not None:
                r = I.call_function(m, [sv], {}, None)
                return to_str(I, r)
            val, has = I.get_field(sv, "__msg__")
            hb = V.concrete_bool(has)
            if hb is True:
                return to_str(I, val) if V.ctor_name(z3.simplify(val)) != "obj" else V.str_of(val)
            return z3.If(z3.And(has, V.is_str(val)), Val.s(val), V.str_of(sv))
        if cd is not None and cd.kind == "repo":
            m = I.ctx.repo.find_method(cd.info, "__str__")
            if m is not None:
                return to_str(I, I.call_function(m, [sv], {}, None))
        if cd is not None and cd.kind == "env" and "__str__" in cd.info.methods:
            return to_str(I, cd.info.methods["__str__"](I, sv, [], {}))
        return V.str_of(sv)
    if cn is None:
        return z3.If(V.is_str(sv), Val.s(sv), V.str_of(sv))
    return V.str_of(sv)


def as_int(I, v, node, what="integer"):
    """The z3 Int of an int-like Val, forking a TypeError path if it is not."""
    sv = z3.simplify(v)
    cn = V.ctor_name(sv)
    if cn == "int":
        return Val.i(sv)
    if cn == "bool":
        return z3.If(Val.b(sv), 1, 0)
    if cn is None and I.choose(V.int_like(sv), f"{what}_is_int"):
        return V.int_val(sv)
    I.throw("TypeError", f"{what} must be an integer")


def _namedtuple_seq(I, sv):
    if V.ctor_name(sv) != "obj":
        return None
    cd = I.class_of(sv)
    names = getattr(I.ctx, "namedtuple_fields", {}).get(cd.cid) if cd is not None else None
    if names is None:
        return None
    return V.seq_of([I.get_field(sv, n)[0] for n in names])


def seq_and_kind(I, v, node, allow=("list", "tuple")):
    nt = _namedtuple_seq(I, z3.simplify(v))
    if nt is not None:
        return nt, "tuple"
    return _seq_and_kind(I, v, node, allow)


def _seq_and_kind(I, v, node, allow=("list", "tuple")):
    sv = z3.simplify(v)
    cn = V.ctor_name(sv)
    if cn == "list":
        return Val.items(sv), "list"
    if cn == "tuple":
        return Val.titems(sv), "tuple"
    if cn is None:
        if I.choose(V.is_list(sv), "is_list"):
            return Val.items(sv), "list"
        if I.choose(V.is_tuple(sv), "is_tuple"):
            return Val.titems(sv), "tuple"
    return None, cn


def concrete_elems(I, v, node) -> List:
    seq, k = seq_and_kind(I, v, node)
    if seq is None:
        d = I.ctx.fn_desc(v)
        if d is not None and d.kind == "pyset":
            return list(d.payload)
        I.throw("TypeError", "argument after * must be an iterable")
    n = z3.simplify(z3.Length(seq))
    if not z3.is_int_value(n):
        raise Unsupported("unpacking a sequence of symbolic length", node)
    return [z3.simplify(seq[k]) for k in range(n.as_long())]


def concrete_keys(dv) -> Optional[List[str]]:
    """Keys of a dict Val whose key set is a literal chain of stores; None otherwise."""
    ks = z3.simplify(Val.dkeys(dv))
    out = []
    removed = set()
    while True:
        if z3.is_K(ks) or (z3.is_app(ks) and ks.decl().kind() == z3.Z3_OP_CONST_ARRAY):
            if z3.is_false(ks.arg(0)):
                break
            return None
        if z3.is_store(ks):
            k, b = ks.arg(1), ks.arg(2)
            if not z3.is_string_value(k):
                return None
            name = _pystr(k)
            if z3.is_true(b):
                if name not in removed and name not in out:
                    out.append(name)
            elif z3.is_false(b):
                removed.add(name)
            else:
                return None
            ks = ks.arg(0)
            continue
        return None
    out.reverse()
    return out


def concrete_items(I, dv, node):
    sv = z3.simplify(dv)
    cn = V.ctor_name(sv)
    if cn is None:
        if not I.choose(V.is_dict(sv), "kwargs_is_dict"):
            I.throw("TypeError", "argument after ** must be a mapping")
        raise Unsupported("** of a dict with symbolic key set", node)
    if cn != "dict":
        I.throw("TypeError", "argument after ** must be a mapping")
    ks = concrete_keys(sv)
    if ks is None:
        raise Unsupported("** of a dict with symbolic key set", node)
    return [(k, z3.simplify(z3.Select(Val.dvals(sv), z3.StringVal(k)))) for k in ks]


# --------------------------------------------------------------------------- containers
def _dict_key(I, key, node, on_missing="KeyError"):
    """Returns the z3 String of a dict key, or None if the key is a non-str hashable (never present).
    Raises the interpreted TypeError for unhashable keys."""
    sk = z3.simplify(key)
    cn = V.ctor_name(sk)
    if cn == "str":
        return Val.s(sk)
    if cn in ("list", "dict"):
        I.throw("TypeError", "unhashable type")
    if cn is not None:
        return None
    if I.choose(V.is_str(sk), "key_is_str"):
        return Val.s(sk)
    if I.choose(z3.Or(V.is_list(sk), V.is_dict(sk)), "key_unhashable"):
        I.throw("TypeError", "unhashable type")
    return None


def get_item(I, cont, key, node):
    sc = z3.simplify(cont)
    cn = V.ctor_name(sc)
    if cn is None:
        if I.choose(V.is_dict(sc), "sub_dict"):
            cn = "dict"
        elif I.choose(V.is_list(sc), "sub_list"):
            cn = "list"
        elif I.choose(V.is_tuple(sc), "sub_tuple"):
            cn = "tuple"
        elif I.choose(V.is_str(sc), "sub_str"):
            cn = "str"
        else:
            I.throw("TypeError", "object is not subscriptable")
    if cn == "dict":
        k = _dict_key(I, key, node)
        if k is None:
            I.throw("KeyError", V.VStr(to_str(I, key)))
        present = z3.Select(Val.dkeys(sc), k)
        I.reads.append(("dict_key", (sc, k)))
        if I.choose(present, "key_present"):
            _wf_dict(I, sc, k)
            h = getattr(I, "dict_entry_hook", None)
            if h is not None:
                h(I, sc, k)
            return z3.simplify(z3.Select(Val.dvals(sc), k))
        I.throw("KeyError", V.VStr(k))
    if cn in ("list", "tuple", "str", "bytes"):
        seq = {"list": Val.items, "tuple": Val.titems, "str": Val.s, "bytes": Val.bs}[cn](sc)
        i = as_int(I, key, node, "index")
        n = z3.Length(seq)
        if I.choose(z3.And(i >= -n, i < n), "index_in_range"):
            j = z3.simplify(z3.If(i < 0, i + n, i))
            if cn in ("list", "tuple"):
                return z3.simplify(seq[j])
            sub = z3.SubString(seq, j, 1)
            return V.VStr(sub) if cn == "str" else V.VInt(z3.StrToCode(sub))
        I.throw("IndexError", "index out of range")
    d = I.ctx.fn_desc(sc)
    if d is not None and d.kind == "pymap":
        for k, v in d.payload:
            if I.choose(V.py_eq(k, key), "pymap_key"):
                return v
        I.throw("KeyError", V.VStr(to_str(I, key)))
    if cn == "obj":
        cd = I.class_of(sc)
        if cd is not None and cd.kind == "env" and "__getitem__" in cd.info.methods:
            return cd.info.methods["__getitem__"](I, sc, [key], {})
    I.throw("TypeError", "object is not subscriptable")


def _wf_dict(I, d, k):
    """ground instance of dict well-formedness: a dict that contains a key has size >= 1."""
    I.assume(z3.Implies(z3.Select(Val.dkeys(d), k), Val.dsize(d) >= 1))
    I.assume(Val.dsize(d) >= 0)


def set_item(I, cont, key, val, node):
    sc = z3.simplify(cont)
    cn = V.ctor_name(sc)
    if cn is None:
        if I.choose(V.is_dict(sc), "setitem_dict"):
            cn = "dict"
        elif I.choose(V.is_list(sc), "setitem_list"):
            cn = "list"
        else:
            I.throw("TypeError", "object does not support item assignment")
    if cn == "dict":
        k = _dict_key(I, key, node)
        if k is None:
            raise Unsupported("dict store with a non-string key", node)
        keys, vals = Val.dkeys(sc), Val.dvals(sc)
        present = z3.Select(keys, k)
        size = z3.simplify(Val.dsize(sc) + z3.If(present, 0, 1))
        I.assume(Val.dsize(sc) >= 0)
        return Val.dict(Val.did(sc), z3.Store(keys, k, True), z3.Store(vals, k, val), size)
    if cn == "list":
        seq = Val.items(sc)
        i = as_int(I, key, node, "index")
        n = z3.Length(seq)
        if I.choose(z3.And(i >= -n, i < n), "index_in_range"):
            j = z3.If(i < 0, i + n, i)
            new = z3.Concat(z3.Extract(seq, 0, j), z3.Unit(val), z3.Extract(seq, j + 1, n - j - 1))
            return Val.list(z3.simplify(new))
        I.throw("IndexError", "list assignment index out of range")
    I.throw("TypeError", "object does not support item assignment")


def del_item(I, cont, key, node):
    sc = z3.simplify(cont)
    cn = V.ctor_name(sc)
    if cn is None:
        if I.choose(V.is_dict(sc), "delitem_dict"):
            cn = "dict"
        elif I.choose(V.is_list(sc), "delitem_list"):
            raise Unsupported("del on a symbolic list", node)
        else:
            I.throw("TypeError", "object does not support item deletion")
    if cn == "dict":
        k = _dict_key(I, key, node)
        if k is None:
            I.throw("KeyError", V.VStr(to_str(I, key)))
        keys, vals = Val.dkeys(sc), Val.dvals(sc)
        if I.choose(z3.Select(keys, k), "del_key_present"):
            _wf_dict(I, sc, k)
            return Val.dict(Val.did(sc), z3.Store(keys, k, False), z3.Store(vals, k, V.NONE),
                            z3.simplify(Val.dsize(sc) - 1))
        I.throw("KeyError", V.VStr(k))
    raise Unsupported(f"del item on {cn}", node)


def dict_update(I, d, other, node):
    so = z3.simplify(other)
    if V.ctor_name(so) is None:
        if not I.choose(V.is_dict(so), "update_arg_is_dict"):
            I.throw("TypeError", "argument is not a mapping")
    elif V.ctor_name(so) != "dict":
        I.throw("TypeError", "argument is not a mapping")
    ks = concrete_keys(so)
    if ks is not None:
        for k in ks:
            d = set_item(I, d, V.VStr(k), z3.simplify(z3.Select(Val.dvals(so), z3.StringVal(k))), node)
        return d
    # symbolic right-hand side: pointwise merge (size becomes unknown but consistent)
    keys = z3.Lambda([_k := z3.String("k!u")], z3.Or(z3.Select(Val.dkeys(d), _k), z3.Select(Val.dkeys(so), _k)))
    vals = z3.Lambda([_k], z3.If(z3.Select(Val.dkeys(so), _k), z3.Select(Val.dvals(so), _k),
                                 z3.Select(Val.dvals(d), _k)))
    size = I.fresh_int("usz")
    I.assume(z3.And(size >= Val.dsize(d), size >= Val.dsize(so), size <= Val.dsize(d) + Val.dsize(so)))
    return Val.dict(Val.did(d), keys, vals, size)


def norm_index(i, n):
    """python slice bound normalisation"""
    return z3.If(i < 0, z3.If(n + i < 0, 0, n + i), z3.If(i > n, n, i))


def get_slice(I, cont, lo, hi, node):
    sc = z3.simplify(cont)
    cn = V.ctor_name(sc)
    if cn is None:
        if I.choose(V.is_str(sc), "slice_str"):
            cn = "str"
        elif I.choose(V.is_list(sc), "slice_list"):
            cn = "list"
        elif I.choose(V.is_tuple(sc), "slice_tuple"):
            cn = "tuple"
        elif I.choose(V.is_bytes(sc), "slice_bytes"):
            cn = "bytes"
        else:
            I.throw("TypeError", "object is not subscriptable")
    if cn not in ("str", "list", "tuple", "bytes"):
        I.throw("TypeError", "object is not subscriptable")
    seq = {"list": Val.items, "tuple": Val.titems, "str": Val.s, "bytes": Val.bs}[cn](sc)
    n = z3.Length(seq)
    a = z3.IntVal(0) if lo is None or V.ctor_name(z3.simplify(lo)) == "none" else norm_index(as_int(I, lo, node), n)
    b = n if hi is None or V.ctor_name(z3.simplify(hi)) == "none" else norm_index(as_int(I, hi, node), n)
    ln = z3.If(b - a < 0, 0, b - a)
    if cn == "str" and (hi is None or V.ctor_name(z3.simplify(hi)) == "none") and lo is not None:
        lv = z3.simplify(lo)
        x = z3.simplify(seq)
        if V.ctor_name(lv) == "int" and z3.is_int_value(z3.simplify(Val.i(lv))) and z3.is_app(x) and \
                x.decl().kind() == z3.Z3_OP_SEQ_CONCAT and z3.is_string_value(x.children()[0]):
            k = z3.simplify(Val.i(lv)).as_long()
            head = _pystr(x.children()[0])
            if 0 <= k <= len(head):
                rest = ([z3.StringVal(head[k:])] if head[k:] else []) + x.children()[1:]
                return V.VStr(z3.simplify(z3.Concat(*rest)) if len(rest) > 1 else rest[0])
    # known-shape strings: slice the character list syntactically when bounds are concrete
    if cn == "str":
        cl = char_list(seq)
        sa, sb = z3.simplify(a), z3.simplify(b)
        if cl is not None:
            na = len(cl)
            def conc(x, dflt):
                if x is None:
                    return dflt
                xv = z3.simplify(x)
                if V.ctor_name(xv) == "none":
                    return dflt
                if V.ctor_name(xv) == "int" and z3.is_int_value(z3.simplify(Val.i(xv))):
                    return z3.simplify(Val.i(xv)).as_long()
                return "sym"
            l0, h0 = conc(lo, None), conc(hi, None)
            if l0 != "sym" and h0 != "sym":
                return V.VStr(from_chars(cl[slice(l0, h0)]))
    sub = z3.simplify(z3.Extract(seq, a, ln))
    return {"list": Val.list, "tuple": Val.tuple, "str": Val.str, "bytes": Val.bytes}[cn](sub)


def unpack(I, val, n, node):
    seq, k = seq_and_kind(I, val, node)
    if seq is None:
        I.throw("TypeError", "cannot unpack non-iterable object")
    ln = z3.Length(seq)
    if I.choose(ln == n, "unpack_len"):
        return [z3.simplify(seq[i]) for i in range(n)]
    I.throw("ValueError", "wrong number of values to unpack")


# --------------------------------------------------------------------------- operators
def unaryop(I, op, v, node):
    sv = z3.simplify(v)
    if isinstance(op, ast.USub):
        if V.ctor_name(sv) == "int":
            return V.VInt(z3.simplify(-Val.i(sv)))
        if V.ctor_name(sv) == "real":
            return V.VReal(z3.simplify(-Val.r(sv)))
        if I.choose(V.int_like(sv), "neg_int"):
            return V.VInt(-V.int_val(sv))
        if I.choose(V.is_real(sv), "neg_real"):
            return V.VReal(-Val.r(sv))
        I.throw("TypeError", "bad operand type for unary -")
    if isinstance(op, ast.UAdd):
        return sv
    raise Unsupported("unary operator", node)


def _kind(I, v, label):
    """Decide the arithmetic kind of a Val on this path: 'int' | 'real' | 'str' | 'list' | 'tuple' | 'bytes' | other"""
    sv = z3.simplify(v)
    cn = V.ctor_name(sv)
    if cn is not None:
        return "int" if cn == "bool" else cn
    for k, t in (("int", V.int_like), ("real", V.is_real), ("str", V.is_str), ("list", V.is_list),
                 ("tuple", V.is_tuple), ("bytes", V.is_bytes), ("none", V.is_none), ("dict", V.is_dict)):
        if I.choose(t(sv), f"{label}_{k}"):
            return k
    return "obj"


def num_term(v, kind):
    sv = z3.simplify(v)
    if kind == "int":
        return z3.simplify(V.int_val(sv)) if V.ctor_name(sv) != "int" else Val.i(sv)
    return Val.r(sv)


def binop(I, op, a, b, node):
    da, db = I.ctx.fn_desc(z3.simplify(a)), I.ctx.fn_desc(z3.simplify(b))
    if da is not None and db is not None and da.kind == "pyset" and db.kind == "pyset" and \
            isinstance(op, (ast.BitOr, ast.BitAnd, ast.Sub)):
        # literal sets: element equality must be decidable syntactically
        xs, ys = [z3.simplify(x) for x in da.payload], [z3.simplify(y) for y in db.payload]

        def member(e, coll):
            hits = [z3.simplify(V.py_eq(e, c)) for c in coll]
            if any(z3.is_true(h) for h in hits):
                return True
            if all(z3.is_false(h) for h in hits):
                return False
            raise Unsupported("set operation on elements whose equality is not decided syntactically", node)
        if isinstance(op, ast.BitOr):
            out = list(xs) + [y for y in ys if not member(y, xs)]
        elif isinstance(op, ast.BitAnd):
            out = [x for x in xs if member(x, ys)]
        else:
            out = [x for x in xs if not member(x, ys)]
        return I.ctx.fn_val(FnDesc("pyset", out, name="set"))
    ka, kb = _kind(I, a, "lhs"), _kind(I, b, "rhs")
    sa, sb = z3.simplify(a), z3.simplify(b)
    if ka in ("int", "real") and kb in ("int", "real"):
        if ka == "int" and kb == "int":
            x, y = num_term(sa, "int"), num_term(sb, "int")
            if isinstance(op, ast.Add):
                return V.VInt(z3.simplify(x + y))
            if isinstance(op, ast.Sub):
                return V.VInt(z3.simplify(x - y))
            if isinstance(op, ast.Mult):
                return V.VInt(z3.simplify(x * y))
            if isinstance(op, (ast.FloorDiv, ast.Mod)):
                if I.choose(y == 0, "div_by_zero"):
                    I.throw("ZeroDivisionError", "integer division or modulo by zero")
                # python floor semantics: z3 div/mod are euclidean (match python for y > 0)
                q = z3.If(y > 0, x / y, -((-x) / (-y))) if False else None
                if isinstance(op, ast.FloorDiv):
                    return V.VInt(z3.If(y > 0, x / y, (-x) / (-y)))
                return V.VInt(z3.If(y > 0, x % y, -((-x) % (-y))))
            if isinstance(op, ast.Div):
                if I.choose(y == 0, "div_by_zero"):
                    I.throw("ZeroDivisionError", "division by zero")
                return V.VReal(z3.ToReal(x) / z3.ToReal(y))
            if isinstance(op, ast.Pow):
                xv, yv = z3.simplify(x), z3.simplify(y)
                if z3.is_int_value(xv) and z3.is_int_value(yv) and yv.as_long() >= 0:
                    return V.VInt(xv.as_long() ** yv.as_long())
            if isinstance(op, (ast.BitOr, ast.BitAnd)):
                xv, yv = z3.simplify(x), z3.simplify(y)
                if z3.is_int_value(xv) and z3.is_int_value(yv):
                    return V.VInt(xv.as_long() | yv.as_long() if isinstance(op, ast.BitOr) else xv.as_long() & yv.as_long())
                if isinstance(op, ast.BitOr) and z3.is_int_value(xv) and xv.as_long() == 0:
                    return V.VInt(yv)
                if isinstance(op, ast.BitOr) and z3.is_int_value(yv) and yv.as_long() == 0:
                    return V.VInt(xv)
                return V.VInt((bit_or if isinstance(op, ast.BitOr) else bit_and)(xv, yv))
            raise Unsupported(f"int operator {type(op).__name__}", node)
        x = z3.ToReal(num_term(sa, "int")) if ka == "int" else Val.r(sa)
        y = z3.ToReal(num_term(sb, "int")) if kb == "int" else Val.r(sb)
        if isinstance(op, ast.Add):
            return V.VReal(z3.simplify(x + y))
        if isinstance(op, ast.Sub):
            return V.VReal(z3.simplify(x - y))
        if isinstance(op, ast.Mult):
            return V.VReal(z3.simplify(x * y))
        if isinstance(op, ast.Div):
            if I.choose(y == 0, "div_by_zero"):
                I.throw("ZeroDivisionError", "float division by zero")
            return V.VReal(x / y)
        raise Unsupported(f"float operator {type(op).__name__}", node)
    if isinstance(op, ast.Add):
        if ka == "str" and kb == "str":
            return V.VStr(z3.simplify(z3.Concat(Val.s(sa), Val.s(sb))))
        if ka == "list" and kb == "list":
            return V.VList(z3.simplify(z3.Concat(Val.items(sa), Val.items(sb))))
        if ka == "tuple" and kb == "tuple":
            return V.VTuple(z3.simplify(z3.Concat(Val.titems(sa), Val.titems(sb))))
        if ka == "bytes" and kb == "bytes":
            return V.VBytes(z3.simplify(z3.Concat(Val.bs(sa), Val.bs(sb))))
        I.throw("TypeError", "unsupported operand type(s) for +")
    if isinstance(op, ast.Mod) and ka == "str":
        seq = Val.titems(sb) if kb == "tuple" else z3.Unit(sb)
        return V.VStr(format_of(Val.s(sa), seq))
    if isinstance(op, ast.Mult) and ka == "str" and kb == "int":
        s, n = pystr(Val.s(sa)), z3.simplify(num_term(sb, "int"))
        if s is not None and z3.is_int_value(n):
            return V.VStr(s * n.as_long())
        raise Unsupported("symbolic string repetition", node)
    if isinstance(op, ast.BitOr) and ka == "dict" and kb == "dict":
        return dict_update(I, sa, sb, node)
    if isinstance(op, (ast.BitOr, ast.BitAnd)) and ka == "int" and kb == "int":
        x, y = z3.simplify(num_term(sa, "int")), z3.simplify(num_term(sb, "int"))
        if z3.is_int_value(x) and z3.is_int_value(y):
            return V.VInt(x.as_long() | y.as_long() if isinstance(op, ast.BitOr) else x.as_long() & y.as_long())
        if isinstance(op, ast.BitOr):
            if z3.is_int_value(x) and x.as_long() == 0:
                return V.VInt(y)
            if z3.is_int_value(y) and y.as_long() == 0:
                return V.VInt(x)
        return V.VInt((bit_or if isinstance(op, ast.BitOr) else bit_and)(x, y))
    I.throw("TypeError", f"unsupported operand type(s) for {type(op).__name__}")


def compare(I, op, a, b, node):
    """Returns a z3 Bool (may fork / raise the interpreted TypeError)."""
    sa, sb = z3.simplify(a), z3.simplify(b)
    if isinstance(op, ast.Eq):
        return str_aware_eq(sa, sb)
    if isinstance(op, ast.NotEq):
        return z3.Not(str_aware_eq(sa, sb))
    if isinstance(op, ast.Is):
        return sa == sb
    if isinstance(op, ast.IsNot):
        return sa != sb
    if isinstance(op, (ast.In, ast.NotIn)):
        r = contains(I, sb, sa, node)
        return r if isinstance(op, ast.In) else z3.Not(r)
    ka, kb = _kind(I, sa, "cmp_l"), _kind(I, sb, "cmp_r")
    if ka in ("int", "real") and kb in ("int", "real"):
        if ka == "int" and kb == "int":
            x, y = num_term(sa, "int"), num_term(sb, "int")
        else:
            x = z3.ToReal(num_term(sa, "int")) if ka == "int" else Val.r(sa)
            y = z3.ToReal(num_term(sb, "int")) if kb == "int" else Val.r(sb)
        return {ast.Lt: x < y, ast.LtE: x <= y, ast.Gt: x > y, ast.GtE: x >= y}[type(op)]
    if ka == "str" and kb == "str":
        x, y = Val.s(sa), Val.s(sb)
        ca, cb = char_list(x), char_list(y)
        if ca is not None and cb is not None:
            return {ast.Lt: chars_lt(ca, cb, True), ast.LtE: chars_lt(ca, cb, False),
                    ast.Gt: chars_lt(cb, ca, True), ast.GtE: chars_lt(cb, ca, False)}[type(op)]
        # one side a literal: unroll the lexicographic order over the literal's characters (code points); the
        # sequence solver is unreliable on str.< / str.<= with a symbolic operand
        xs, ys = z3.simplify(x), z3.simplify(y)
        if z3.is_string_value(xs) != z3.is_string_value(ys):
            lit_left = z3.is_string_value(xs)
            lit = _pystr(xs if lit_left else ys)
            sym = ys if lit_left else xs
            if lit is not None and len(lit) <= 40:
                def sym_lt_lit(k, strict):      # sym[k:] < (<=) lit[k:]
                    if k == len(lit):
                        return z3.BoolVal(False) if strict else z3.Length(sym) == k
                    a = z3.StrToCode(z3.SubString(sym, k, 1))
                    return z3.Or(z3.Length(sym) == k,
                                 z3.And(z3.Length(sym) > k,
                                        z3.Or(a < ord(lit[k]), z3.And(a == ord(lit[k]), sym_lt_lit(k + 1, strict)))))
                t = type(op)
                if lit_left:     # lit OP sym
                    return {ast.Lt: z3.Not(sym_lt_lit(0, False)), ast.LtE: z3.Not(sym_lt_lit(0, True)),
                            ast.Gt: sym_lt_lit(0, True), ast.GtE: sym_lt_lit(0, False)}[t]
                return {ast.Lt: sym_lt_lit(0, True), ast.LtE: sym_lt_lit(0, False),
                        ast.Gt: z3.Not(sym_lt_lit(0, False)), ast.GtE: z3.Not(sym_lt_lit(0, True))}[t]
        return {ast.Lt: x < y, ast.LtE: x <= y, ast.Gt: y < x, ast.GtE: y <= x}[type(op)]
    if ka == kb and ka in ("list", "tuple"):
        # lexicographic order of two sequences of known length (Python: first differing pair decides, else length)
        seqa = Val.items(sa) if ka == "list" else Val.titems(sa)
        seqb = Val.items(sb) if kb == "list" else Val.titems(sb)
        na, nb = z3.simplify(z3.Length(seqa)), z3.simplify(z3.Length(seqb))
        if not (z3.is_int_value(na) and z3.is_int_value(nb)):
            raise Unsupported("ordering of sequences of symbolic length", node)
        ea = [z3.simplify(seqa[k]) for k in range(na.as_long())]
        eb = [z3.simplify(seqb[k]) for k in range(nb.as_long())]
        strict = isinstance(op, (ast.Lt, ast.Gt))
        if isinstance(op, (ast.Gt, ast.GtE)):
            ea, eb = eb, ea

        def lex(k):     # ea[k:] < (or <=) eb[k:]
            if k >= len(ea) or k >= len(eb):
                return z3.BoolVal(len(ea) - k < len(eb) - k if strict else len(ea) - k <= len(eb) - k)
            eq = compare(I, ast.Eq(), ea[k], eb[k], node)
            lt = compare(I, ast.Lt(), ea[k], eb[k], node)
            return z3.If(eq, lex(k + 1), lt)
        return lex(0)
    I.throw("TypeError", "'<' not supported between these instances")


def str_aware_eq(sa, sb):
    if V.ctor_name(sa) == "str" and V.ctor_name(sb) == "str":
        ca, cb = char_list(Val.s(sa)), char_list(Val.s(sb))
        if ca is not None and cb is not None:
            return chars_eq(ca, cb)
    return V.py_eq(sa, sb)


def contains(I, cont, item, node):
    sc = z3.simplify(cont)
    cn = V.ctor_name(sc)
    d = I.ctx.fn_desc(sc) if cn == "fn" else None
    if d is not None and d.kind == "pyset":
        si = z3.simplify(item)
        if V.ctor_name(si) is None:
            if I.choose(z3.Or(V.is_list(si), V.is_dict(si)), "member_unhashable"):
                I.throw("TypeError", "unhashable type")
        elif V.ctor_name(si) in ("list", "dict"):
            I.throw("TypeError", "unhashable type")
        return z3.Or([V.py_eq(e, si) for e in d.payload]) if d.payload else z3.BoolVal(False)
    if d is not None and d.kind == "pymap":
        return z3.Or([V.py_eq(k, item) for k, _ in d.payload]) if d.payload else z3.BoolVal(False)
    if d is not None and d.kind == "dictview":
        return contains(I, d.payload, item, node)
    if cn is None:
        if I.choose(V.is_dict(sc), "in_dict"):
            cn = "dict"
        elif I.choose(V.is_list(sc), "in_list"):
            cn = "list"
        elif I.choose(V.is_tuple(sc), "in_tuple"):
            cn = "tuple"
        elif I.choose(V.is_str(sc), "in_str"):
            cn = "str"
        else:
            I.throw("TypeError", "argument is not iterable")
    if cn == "dict":
        k = _dict_key(I, item, node)
        if k is None:
            return z3.BoolVal(False)
        I.reads.append(("dict_key", (sc, k)))
        _wf_dict(I, sc, k)
        return z3.Select(Val.dkeys(sc), k)
    if cn in ("list", "tuple"):
        seq = Val.items(sc) if cn == "list" else Val.titems(sc)
        n = z3.simplify(z3.Length(seq))
        if z3.is_int_value(n) and n.as_long() <= 32:
            return z3.Or([str_aware_eq(z3.simplify(seq[k]), z3.simplify(item)) for k in range(n.as_long())]) \
                if n.as_long() else z3.BoolVal(False)
        return z3.Contains(seq, z3.Unit(item))
    if cn == "str":
        si = z3.simplify(item)
        if V.ctor_name(si) is None:
            if not I.choose(V.is_str(si), "in_str_item_is_str"):
                I.throw("TypeError", "'in <string>' requires string as left operand")
        elif V.ctor_name(si) != "str":
            I.throw("TypeError", "'in <string>' requires string as left operand")
        hay = z3.simplify(Val.s(sc))
        if z3.is_app(hay) and hay.decl().kind() == z3.Z3_OP_UNINTERPRETED and hay.num_args() > 0:
            # the haystack is an uninterpreted string (str(x), s.lower() of a free string ...): the sequence
            # theory can say nothing about it, so keep the test as an uninterpreted predicate
            return opaque_contains(hay, Val.s(si))
        return z3.Contains(Val.s(sc), Val.s(si))
    if cn == "obj":
        cd = I.class_of(sc)
        if cd is not None and cd.kind == "env" and "__contains__" in cd.info.methods:
            return V.truthy(cd.info.methods["__contains__"](I, sc, [item], {}))
    I.throw("TypeError", "argument is not iterable")


# --------------------------------------------------------------------------- comprehensions
def comprehension(I, e, kind):
    h = getattr(I.ctx, "comprehension_hook", None)
    if h is not None:
        r = h(I, e, kind)
        if r is not None:
            return r
    if len(e.generators) != 1:
        raise Unsupported("nested comprehension", e)
    g = e.generators[0]
    if g.is_async:
        raise Unsupported("async comprehension", e)
    src = I.eval(g.iter)
    d = I.ctx.fn_desc(src)
    if d is not None and d.kind == "pyset":
        elems = list(d.payload)
    elif d is not None and d.kind == "dictview":
        dv, what = d.payload, d.name
        ks = concrete_keys(dv)
        if ks is None:
            # symbolic key set: a sequence of symbolic length with an element axiom (as in a for loop over the view)
            return generic_comprehension(I, e, g, Val.items(I.dict_as_sequence(dv, what, e)), kind)
        elems = []
        for k in ks:
            v = z3.simplify(z3.Select(Val.dvals(dv), z3.StringVal(k)))
            elems.append({"keys": V.VStr(k), "values": v, "items": V.VTuple([V.VStr(k), v])}[what])
    else:
        elems = None
        seq, k = seq_and_kind(I, src, e)
        if seq is None:
            sv = z3.simplify(src)
            if V.ctor_name(sv) == "dict":
                ks = concrete_keys(sv)
                if ks is not None:
                    elems = [V.VStr(k) for k in ks]
            if elems is None:
                raise Unsupported("comprehension over a non-sequence", e)
        else:
            n = z3.simplify(z3.Length(seq))
            if not z3.is_int_value(n):
                if kind == "list" and not g.ifs:
                    return map_comprehension(I, e, g, seq)
                return generic_comprehension(I, e, g, seq, kind)
            elems = [z3.simplify(seq[i]) for i in range(n.as_long())]
    # comprehension scope: a child frame sharing the enclosing frame lexically
    fr = I.push_frame(I.frame.func, I.frame.module, I.frame, tag=f"<comp@{e.lineno}>")
    try:
        out, dout = [], V.VDict([])
        for x in elems:
            I.assign(g.target, x)
            ok = True
            for c in g.ifs:
                if not I.truth(I.eval(c), "comp_if"):
                    ok = False
                    break
            if not ok:
                continue
            if kind == "dict":
                dout = set_item(I, dout, I.eval(e.key), I.eval(e.value), e)
            else:
                out.append(I.eval(e.elt))
        return dout if kind == "dict" else V.VList(out)
    finally:
        I.pop_frame()


def _heap_changed(I, before):
    for a, h in I.st.heap.items():
        ref = before[a] if a in before else I.ctx.initial_heap(a)[0]
        if not z3.eq(h, ref):
            return True
    return False


def _has_call(node):
    return any(isinstance(n, (ast.Call, ast.Await)) for n in ast.walk(node))


def generic_comprehension(I, e, g, seq, kind):
    """[f(x) for x in seq if c(x)] / {k(x): v(x) ...} over a sequence of symbolic length whose body may fork or raise:
    the source is empty (empty result), or the body is evaluated on ONE generic element seq[k0] (0 <= k0 < len) - an
    exception there is an exception of the comprehension; on normal completion the result is a fresh container of
    the right size carrying the generic element's value at k0 (no filter) and otherwise unconstrained contents.
    Sound over-approximation as long as the body has no side effect on the heap (checked)."""
    if kind not in ("list", "dict"):
        raise Unsupported(f"{kind} comprehension over a sequence of symbolic length", e)
    n = z3.Length(seq)
    if I.choose(n == 0, "comp_source_empty"):
        return V.VDict([]) if kind == "dict" else V.VList([])
    k0 = I.fresh_int("comp_k")
    I.assume(z3.And(k0 >= 0, k0 < n))
    elem = z3.simplify(seq[k0])
    ax = getattr(I, "seq_axioms", {}).get(z3.simplify(seq).get_id())
    if ax is not None:
        ax(I, k0, elem)
    heap_before = {a: h for a, h in I.st.heap.items()}
    I.push_frame(I.frame.func, I.frame.module, I.frame, tag=f"<comp@{e.lineno}>")
    try:
        I.assign(g.target, elem)
        included = True
        for c in g.ifs:
            if not I.truth(I.eval(c), "comp_if"):
                included = False
                break
        key = val = None
        if included:
            if kind == "dict":
                key, val = I.eval(e.key), I.eval(e.value)
            else:
                val = I.eval(e.elt)
    finally:
        I.pop_frame()
    if _heap_changed(I, heap_before):
        raise Unsupported("comprehension body with a side effect on the heap", e)
    I.counter += 1
    if kind == "list":
        R = z3.Const(f"compseq~{I.counter}", V.SeqVal)
        if g.ifs:
            I.assume(z3.And(z3.Length(R) >= (1 if included else 0), z3.Length(R) <= n))
        else:
            I.assume(z3.And(z3.Length(R) == n, R[k0] == val))
        return V.VList(R)
    D = I.fresh("compdict")
    I.assume(z3.And(V.is_dict(D), Val.dsize(D) >= (1 if included else 0), Val.dsize(D) <= n, Val.did(D) >= 1_000_000))
    if included:
        sk = z3.simplify(key)
        if V.ctor_name(sk) == "str" and not g.ifs:
            I.assume(z3.And(z3.Select(Val.dkeys(D), Val.s(sk))))
    return D


def map_comprehension(I, e, g, seq):
    """[f(x) for x in seq] over a sequence of symbolic length: a fresh sequence R of the same length with
    R[k] == f(seq[k]) for all k.  f is the real element expression, evaluated once on a generic element; the
    summary is only used when that evaluation is a pure function of the element (no fork, no fresh value)."""
    elem = I.fresh("comp_elem")
    kind_hint = getattr(I, "seq_elem_kind", {}).get(z3.simplify(seq).get_id())
    if kind_hint == "str":
        I.assume(V.is_str(elem))
    I.push_frame(I.frame.func, I.frame.module, I.frame, tag=f"<mapcomp@{e.lineno}>")
    def generic_element():
        # the body forked / raised / made fresh values: `elem` was ONE generic element of a non-empty source
        k0 = I.fresh_int("comp_k")
        I.assume(z3.And(k0 >= 0, k0 < z3.Length(seq), elem == seq[k0]))
        return k0
    heap_before = {a: h for a, h in I.st.heap.items()}
    try:
        n_dec, n_cnt = len(I.decisions), I.counter
        try:
            I.assign(g.target, elem)
            val = I.eval(e.elt)
        except PyRaise:
            if I.choose(z3.Length(seq) == 0, "comp_source_empty"):
                return V.VList([])           # (the decisions above only constrained the unrelated fresh element)
            generic_element()
            raise
        if len(I.decisions) != n_dec or I.counter != n_cnt:
            if _heap_changed(I, heap_before):
                raise Unsupported("comprehension body with a side effect on the heap", e)
            if I.choose(z3.Length(seq) == 0, "comp_source_empty"):
                return V.VList([])
            k0 = generic_element()
            I.counter += 1
            R = z3.Const(f"compseq~{I.counter}", V.SeqVal)
            I.assume(z3.And(z3.Length(R) == z3.Length(seq), R[k0] == val))
            return V.VList(R)
    finally:
        I.pop_frame()
    I.counter += 1
    R = z3.Const(f"mapseq~{I.counter}", V.SeqVal)
    k = z3.Int(f"mk~{I.counter}")
    I.assume(z3.Length(R) == z3.Length(seq))
    I.assume(z3.ForAll([k], z3.Implies(z3.And(k >= 0, k < z3.Length(seq)),
                                       R[k] == z3.substitute(val, (elem, seq[k])))))
    # ground instances at the ends (the usual places a tail/head is taken)
    ln = z3.Length(seq)
    I.assume(z3.Implies(ln >= 1, z3.And(R[ln - 1] == z3.substitute(val, (elem, seq[ln - 1])),
                                        R[0] == z3.substitute(val, (elem, seq[0])))))
    return V.VList(R)


# --------------------------------------------------------------------------- methods on builtin values
def _writeback(I, node, new):
    if isinstance(node, ast.Call) and isinstance(node.func, ast.Attribute):
        I.write_back(node.func.value, new)
    else:
        raise Unsupported("mutating method called through an alias", node)


def split_chars(I, cl, sep: str):
    """syntactic split of a known-shape string on a 1-char separator."""
    parts, cur = [], []
    for c in cl:
        if isinstance(c, str):
            if c == sep:
                parts.append(cur)
                cur = []
            else:
                cur.append(c)
        else:
            if entails(I, c != ord(sep)):
                cur.append(c)
            elif entails(I, c == ord(sep)):
                parts.append(cur)
                cur = []
            else:
                if I.choose(c == ord(sep), "char_is_sep"):
                    parts.append(cur)
                    cur = []
                else:
                    cur.append(c)
    parts.append(cur)
    return parts


def segment_split(I, x, sep: str):
    """split of a concatenation whose symbolic parts provably do not contain the separator (the concrete parts are
    split literally).  None if some symbolic part may contain it."""
    x = z3.simplify(x)
    if not (z3.is_app(x) and x.decl().kind() == z3.Z3_OP_SEQ_CONCAT):
        return None
    parts = []

    def flat(t):
        if z3.is_app(t) and t.decl().kind() == z3.Z3_OP_SEQ_CONCAT:
            for c in t.children():
                flat(c)
        else:
            parts.append(t)
    flat(x)
    pieces, cur = [], []

    def close():
        if not cur:
            pieces.append(z3.StringVal(""))
        elif len(cur) == 1:
            pieces.append(cur[0])
        else:
            pieces.append(z3.simplify(z3.Concat(*cur)))
        cur.clear()
    for p in parts:
        if z3.is_string_value(p):
            chunks = _pystr(p).split(sep)
            for k, ch in enumerate(chunks):
                if k:
                    close()
                if ch:
                    cur.append(z3.StringVal(ch))
        else:
            if not entails(I, z3.Not(z3.Contains(p, z3.StringVal(sep)))):
                return None
            cur.append(p)
    close()
    return pieces


def builtin_method(I, recv, name, args, kwargs, node, desc=None):
    sr = z3.simplify(recv)
    cn = V.ctor_name(sr)
    d = I.ctx.fn_desc(sr) if cn == "fn" else None
    if d is not None and d.kind == "pyset":
        if name == "copy":
            return I.ctx.fn_val(FnDesc("pyset", list(d.payload), name="set"))
        raise Unsupported(f"set.{name}", node)
    if d is not None and d.kind == "pymap":
        if name == "get":
            default = args[1] if len(args) > 1 else V.NONE
            r = default
            for k, v in reversed(d.payload):
                r = z3.If(V.py_eq(k, args[0]), v, r)
            return z3.simplify(r)
        raise Unsupported(f"method {name} on a non-string-keyed literal dict", node)
    if cn is None:
        k = desc.name.split(".")[0] if desc is not None else None
        cn = {"real": "real"}.get(k, k)
    m = globals().get(f"m_{cn}_{name}")
    if m is None:
        raise Unsupported(f"method {cn}.{name}", node)
    return m(I, sr, args, kwargs, node)


# ---- dict
def m_dict_get(I, d, args, kwargs, node):
    default = args[1] if len(args) > 1 else kwargs.get("default", V.NONE)
    k = _dict_key(I, args[0], node)
    if k is None:
        return default
    I.reads.append(("dict_key", (d, k)))
    _wf_dict(I, d, k)
    h = getattr(I, "dict_entry_hook", None)
    if h is not None:
        h(I, d, k)
    return z3.simplify(z3.If(z3.Select(Val.dkeys(d), k), z3.Select(Val.dvals(d), k), default))


def m_dict_copy(I, d, args, kwargs, node):
    return Val.dict(V.fresh_dict_id(), Val.dkeys(d), Val.dvals(d), Val.dsize(d))


def m_dict_pop(I, d, args, kwargs, node):
    k = _dict_key(I, args[0], node)
    has_default = len(args) > 1
    if k is None:
        if has_default:
            return args[1]
        I.throw("KeyError", V.VStr(to_str(I, args[0])))
    if I.choose(z3.Select(Val.dkeys(d), k), "pop_key_present"):
        _wf_dict(I, d, k)
        v = z3.simplify(z3.Select(Val.dvals(d), k))
        new = Val.dict(Val.did(d), z3.Store(Val.dkeys(d), k, False), z3.Store(Val.dvals(d), k, V.NONE),
                       z3.simplify(Val.dsize(d) - 1))
        _writeback(I, node, new)
        return v
    if has_default:
        return args[1]
    I.throw("KeyError", V.VStr(k))


def m_dict_update(I, d, args, kwargs, node):
    new = d
    if args:
        new = dict_update(I, new, args[0], node)
    for k, v in kwargs.items():
        new = set_item(I, new, V.VStr(k), v, node)
    _writeback(I, node, new)
    return V.NONE


def m_dict_clear(I, d, args, kwargs, node):
    _writeback(I, node, Val.dict(Val.did(d), V.EMPTY_KEYS, V.EMPTY_VALS, z3.IntVal(0)))
    return V.NONE


def m_dict_setdefault(I, d, args, kwargs, node):
    k = _dict_key(I, args[0], node)
    if k is None:
        raise Unsupported("setdefault with a non-string key", node)
    default = args[1] if len(args) > 1 else V.NONE
    if I.choose(z3.Select(Val.dkeys(d), k), "setdefault_present"):
        return z3.simplify(z3.Select(Val.dvals(d), k))
    _writeback(I, node, set_item(I, d, V.VStr(k), default, node))
    return default


def _view(I, d, what):
    return I.ctx.fn_val(FnDesc("dictview", d, name=what))


def m_dict_items(I, d, args, kwargs, node):
    return _view(I, d, "items")


def m_dict_keys(I, d, args, kwargs, node):
    return _view(I, d, "keys")


def m_dict_values(I, d, args, kwargs, node):
    return _view(I, d, "values")


# ---- list
def m_list_append(I, l, args, kwargs, node):
    _writeback(I, node, V.VList(z3.simplify(z3.Concat(Val.items(l), z3.Unit(args[0])))))
    return V.NONE


def m_list_extend(I, l, args, kwargs, node):
    seq, k = seq_and_kind(I, args[0], node)
    if seq is None:
        raise Unsupported("extend with a non-sequence", node)
    _writeback(I, node, V.VList(z3.simplify(z3.Concat(Val.items(l), seq))))
    return V.NONE


def m_list_copy(I, l, args, kwargs, node):
    return l


def m_list_pop(I, l, args, kwargs, node):
    seq = Val.items(l)
    n = z3.Length(seq)
    if args:
        i = as_int(I, args[0], node)
    else:
        i = z3.IntVal(-1)
    if I.choose(z3.And(i >= -n, i < n), "pop_in_range"):
        j = z3.simplify(z3.If(i < 0, i + n, i))
        v = z3.simplify(seq[j])
        new = z3.Concat(z3.Extract(seq, 0, j), z3.Extract(seq, j + 1, n - j - 1))
        _writeback(I, node, V.VList(z3.simplify(new)))
        return v
    I.throw("IndexError", "pop index out of range")


def m_list_clear(I, l, args, kwargs, node):
    _writeback(I, node, V.VList([]))
    return V.NONE


def m_list_index(I, l, args, kwargs, node):
    raise Unsupported("list.index", node)


# ---- str
def _str_arg(I, v, node, what="argument"):
    sv = z3.simplify(v)
    cn = V.ctor_name(sv)
    if cn == "str":
        return Val.s(sv)
    if cn is None and I.choose(V.is_str(sv), f"{what}_is_str"):
        return Val.s(sv)
    I.throw("TypeError", f"{what} must be str")


def m_str_split(I, s, args, kwargs, node):
    x = Val.s(s)
    if not args or V.ctor_name(z3.simplify(args[0])) == "none":
        ps = pystr(x)
        if ps is not None:
            return V.lift(ps.split())
        raise Unsupported("whitespace split of a symbolic string", node)
    sep = _str_arg(I, args[0], node, "separator")
    maxsplit = None
    if len(args) > 1:
        mv = z3.simplify(args[1])
        if V.ctor_name(mv) == "int" and z3.is_int_value(z3.simplify(Val.i(mv))):
            maxsplit = z3.simplify(Val.i(mv)).as_long()
        else:
            raise Unsupported("symbolic maxsplit", node)
    ps, psep = pystr(x), pystr(sep)
    if ps is not None and psep is not None:
        if psep == "":
            I.throw("ValueError", "empty separator")
        return V.lift(ps.split(psep) if maxsplit is None else ps.split(psep, maxsplit))
    cl = char_list(x)
    if cl is not None and psep is not None and len(psep) == 1 and maxsplit is None:
        return V.VList([V.VStr(from_chars(p)) for p in split_chars(I, cl, psep)])
    if psep is not None and maxsplit is None and len(psep) >= 1:
        seg = segment_split(I, x, psep)
        if seg is not None:
            return V.VList([V.VStr(p) for p in seg])
    if psep is not None and maxsplit == 1:
        # s.split(sep, 1): [s] if sep not in s else [before, after] at the first occurrence
        if I.choose(z3.Contains(x, sep), "split1_has_sep"):
            i = z3.IndexOf(x, sep, 0)
            before = z3.SubString(x, 0, i)
            after = z3.SubString(x, i + len(psep), z3.Length(x) - i - len(psep))
            I.assume(z3.Not(z3.Contains(before, sep)))
            I.assume(x == z3.Concat(before, sep, after))
            return V.VList([V.VStr(before), V.VStr(after)])
        return V.VList([s])
    if maxsplit is not None:
        raise Unsupported("symbolic split with maxsplit", node)
    r = split_of(x, sep)
    # ground lemmas (audited): at least one part; contracts that need more (split over concatenation, element
    # types) add the instances they use through ctx.split_hook
    I.assume(z3.Length(r) >= 1)
    if not hasattr(I, "seq_elem_kind"):
        I.seq_elem_kind = {}
    I.seq_elem_kind[r.get_id()] = "str"
    h = getattr(I.ctx, "split_hook", None)
    if h is not None:
        h(I, x, sep, r)
    return V.VList(r)


splitlines_of = z3.Function("splitlines_of", S, V.SeqVal)


def m_str_splitlines(I, s, args, kwargs, node):
    ps = pystr(Val.s(s))
    if ps is not None and not args and not kwargs:
        return V.lift(ps.splitlines())
    # not interpreted: python splits on \n, \r, \r\n, \v, \f, \x1c-\x1e, \x85, U+2028, U+2029
    return V.VList(splitlines_of(Val.s(s)))


def m_str_strip(I, s, args, kwargs, node):
    ps = pystr(Val.s(s))
    if args and V.ctor_name(z3.simplify(args[0])) != "none":
        pa = pystr(_str_arg(I, args[0], node))
        if ps is not None and pa is not None:
            return V.VStr(ps.strip(pa))
        raise Unsupported("strip(chars) on a symbolic string", node)
    if ps is not None:
        return V.VStr(ps.strip())
    x = Val.s(s)
    if fast_entails(I, z3.And(z3.Or(z3.PrefixOf(z3.StringVal("{"), x), z3.PrefixOf(z3.StringVal("["), x)),
                              z3.Or(z3.SuffixOf(z3.StringVal("}"), x), z3.SuffixOf(z3.StringVal("]"), x)))) is True:
        return s                          # delimited by brackets: no surrounding whitespace (lemma, audited)
    r = strip_of(x)
    I.assume(z3.Length(r) <= z3.Length(x))
    return V.VStr(r)


def m_str_rstrip(I, s, args, kwargs, node):
    probe = getattr(I.ctx, "rstrip_probe", None)
    if probe is not None:
        probe(I, Val.s(s))
    ps = pystr(Val.s(s))
    if args and V.ctor_name(z3.simplify(args[0])) != "none":
        a = _str_arg(I, args[0], node)
        pa = pystr(a)
        if ps is not None and pa is not None:
            return V.VStr(ps.rstrip(pa))
        if pa is not None and len(pa) == 1 and entails(I, z3.Not(z3.SuffixOf(z3.StringVal(pa), Val.s(s)))):
            return s                      # nothing to strip
        if pa is not None and len(pa) == 1:
            # a concatenation ending in a literal: strip the literal's tail syntactically
            x = z3.simplify(Val.s(s))
            parts = _concat_parts(x) if (z3.is_app(x) and x.decl().kind() == z3.Z3_OP_SEQ_CONCAT) else []
            if parts and z3.is_string_value(parts[-1]):
                tail = _pystr(parts[-1])
                st = tail.rstrip(pa)
                if st:
                    return V.VStr(z3.simplify(z3.Concat(*(parts[:-1] + [z3.StringVal(st)]))))
                rest = parts[:-1]
                inner = rest[0] if len(rest) == 1 else z3.Concat(*rest)
                return m_str_rstrip(I, V.VStr(z3.simplify(inner)), args, kwargs, node)
        r = rstrip_chars(Val.s(s), a)
        I.assume(z3.PrefixOf(r, Val.s(s)))
        if pa is not None and len(pa) == 1:
            I.assume(z3.Not(z3.SuffixOf(z3.StringVal(pa), r)))
            I.assume(z3.Implies(z3.Not(z3.SuffixOf(z3.StringVal(pa), Val.s(s))), r == Val.s(s)))
        return V.VStr(r)
    if ps is not None:
        return V.VStr(ps.rstrip())
    r = rstrip_of(Val.s(s))
    I.assume(z3.PrefixOf(r, Val.s(s)))
    return V.VStr(r)


def m_str_lstrip(I, s, args, kwargs, node):
    ps = pystr(Val.s(s))
    if args:
        raise Unsupported("lstrip(chars)", node)
    if ps is not None:
        return V.VStr(ps.lstrip())
    r = lstrip_of(Val.s(s))
    I.assume(z3.SuffixOf(r, Val.s(s)))
    return V.VStr(r)


def m_str_startswith(I, s, args, kwargs, node):
    a = z3.simplify(args[0])
    if V.ctor_name(a) == "tuple":
        n = z3.simplify(z3.Length(Val.titems(a))).as_long()
        return V.VBool(z3.Or([z3.PrefixOf(_str_arg(I, z3.simplify(Val.titems(a)[k]), node), Val.s(s))
                              for k in range(n)]))
    return V.VBool(z3.PrefixOf(_str_arg(I, a, node), Val.s(s)))


def m_str_endswith(I, s, args, kwargs, node):
    return V.VBool(z3.SuffixOf(_str_arg(I, args[0], node), Val.s(s)))


def m_str_lower(I, s, args, kwargs, node):
    ps = pystr(Val.s(s))
    if ps is not None:
        return V.VStr(ps.lower())
    return V.VStr(lower_of(Val.s(s)))


def m_str_upper(I, s, args, kwargs, node):
    ps = pystr(Val.s(s))
    if ps is not None:
        return V.VStr(ps.upper())
    return V.VStr(upper_of(Val.s(s)))


def m_str_replace(I, s, args, kwargs, node):
    x = Val.s(s)
    old, new = _str_arg(I, args[0], node), _str_arg(I, args[1], node)
    ps, po, pn = pystr(x), pystr(old), pystr(new)
    if ps is not None and po is not None and pn is not None:
        return V.VStr(ps.replace(po, pn))
    cl = char_list(x)
    if cl is not None and po is not None and len(po) == 1 and pn is not None:
        parts = split_chars(I, cl, po)
        out = []
        for k, p in enumerate(parts):
            if k:
                out.extend(list(pn))
            out.extend(p)
        return V.VStr(from_chars(out))
    r = replace_all(x, old, new)
    if po is not None and pn is not None and po and po not in pn:
        I.assume(z3.Not(z3.Contains(r, old)))
        I.assume(z3.Implies(z3.Not(z3.Contains(x, old)), r == x))
    return V.VStr(r)


def m_str_encode(I, s, args, kwargs, node):
    ps = pystr(Val.s(s))
    if ps is not None:
        try:
            return V.VBytes(ps.encode("utf-8"))
        except UnicodeEncodeError:
            I.throw("UnicodeEncodeError", "surrogates not allowed")
    return V.VBytes(utf8_enc(Val.s(s)))


def _bytes_arg(I, a, node):
    sa = z3.simplify(a)
    if V.ctor_name(sa) == "bytes" or entails(I, V.is_bytes(sa)):
        return Val.bs(sa)
    raise Unsupported("bytes method with a non-bytes argument", node)


def m_bytes_endswith(I, b, args, kwargs, node):
    return V.VBool(z3.SuffixOf(_bytes_arg(I, args[0], node), Val.bs(b)))


def m_bytes_startswith(I, b, args, kwargs, node):
    return V.VBool(z3.PrefixOf(_bytes_arg(I, args[0], node), Val.bs(b)))


def m_bytes_decode(I, b, args, kwargs, node):
    x = z3.simplify(Val.bs(b))
    enc = args[0] if args else kwargs.get("encoding", V.VStr("utf-8"))
    pe = pystr(Val.s(z3.simplify(enc))) if V.ctor_name(z3.simplify(enc)) == "str" else None
    if pe is None:
        raise Unsupported("bytes.decode with a symbolic encoding", node)
    if pe.lower().replace("_", "-") not in ("utf-8", "utf8"):
        # another codec: an uninterpreted partial function of (encoding, bytes)
        if I.choose(other_decode_ok(z3.StringVal(pe), x), "decode_ok"):
            return V.VStr(other_decode(z3.StringVal(pe), x))
        I.throw("UnicodeDecodeError", "codec can't decode")
    if z3.is_app(x) and x.decl().name() == "utf8_enc":
        return V.VStr(x.arg(0))            # decoding the utf-8 encoding of a str gives the str back
    errs = args[1] if len(args) > 1 else kwargs.get("errors")
    if errs is not None:
        pe2 = pystr(Val.s(z3.simplify(errs))) if V.ctor_name(z3.simplify(errs)) == "str" else None
        if pe2 in ("replace", "ignore", "backslashreplace", "surrogateescape"):
            # a lenient one-shot decode never raises: a total (uninterpreted) function of these bytes ALONE - unlike the
            # incremental decoder it knows nothing of bytes seen before or after
            return V.VStr(utf8_dec_lenient(z3.StringVal(pe2), x))
        if pe2 != "strict":
            raise Unsupported("bytes.decode with a symbolic / unknown errors argument", node)
    if I.choose(utf8_ok(x), "utf8_ok"):
        return V.VStr(utf8_dec(x))
    I.throw("UnicodeDecodeError", "invalid utf-8")


def m_str_isdigit(I, s, args, kwargs, node):
    ps = pystr(Val.s(s))
    if ps is not None:
        return V.VBool(ps.isdigit())
    return V.VBool(isdigit_of(Val.s(s)))


def m_str_join(I, s, args, kwargs, node):
    seq, k = seq_and_kind(I, args[0], node)
    if seq is None:
        raise Unsupported("join of a non-sequence", node)
    n = z3.simplify(z3.Length(seq))
    if z3.is_int_value(n):
        parts = []
        for i in range(n.as_long()):
            if i:
                parts.append(Val.s(s))
            parts.append(_str_arg(I, z3.simplify(seq[i]), node, "join item"))
        if not parts:
            return V.VStr("")
        return V.VStr(z3.simplify(z3.Concat(*parts)) if len(parts) > 1 else parts[0])
    return V.VStr(join_of(Val.s(s), seq))


def m_str_format(I, s, args, kwargs, node):
    tmpl = pystr(Val.s(s))
    if tmpl is not None:
        import string
        try:
            fields = list(string.Formatter().parse(tmpl))
        except ValueError:
            fields = None
        if fields is not None and all((f[2] in (None, "")) and (f[3] is None) for f in fields):
            parts, auto = [], 0
            ok = True
            for lit, name, _spec, _conv in fields:
                if lit:
                    parts.append(z3.StringVal(lit))
                if name is None:
                    continue
                if name == "":
                    idx, auto = auto, auto + 1
                    v = args[idx] if idx < len(args) else None
                elif name.isdigit():
                    v = args[int(name)] if int(name) < len(args) else None
                elif name.isidentifier():
                    v = kwargs.get(name)
                else:
                    ok = False
                    break
                if v is None:
                    I.throw("IndexError" if (name == "" or name.isdigit()) else "KeyError", "format field missing")
                parts.append(to_str(I, v))
            if ok:
                if not parts:
                    return V.VStr("")
                return V.VStr(z3.simplify(z3.Concat(*parts)) if len(parts) > 1 else parts[0])
    return V.VStr(format_of(Val.s(s), V.seq_of(args)))


def m_str_find(I, s, args, kwargs, node):
    return V.VInt(z3.IndexOf(Val.s(s), _str_arg(I, args[0], node), 0))


def m_str_partition(I, s, args, kwargs, node):
    x = Val.s(s)
    sep = _str_arg(I, args[0], node)
    if I.choose(z3.Contains(x, sep), "partition_has_sep"):
        i = z3.IndexOf(x, sep, 0)
        before = z3.SubString(x, 0, i)
        after = z3.SubString(x, i + z3.Length(sep), z3.Length(x) - i - z3.Length(sep))
        return V.VTuple([V.VStr(before), V.VStr(sep), V.VStr(after)])
    return V.VTuple([s, V.VStr(""), V.VStr("")])


# --------------------------------------------------------------------------- builtin functions
def b_getattr(I, args, kwargs, node):
    if len(args) < 2:
        I.throw("TypeError", "getattr expected at least 2 arguments")
    name = pystr(Val.s(z3.simplify(args[1]))) if V.ctor_name(z3.simplify(args[1])) == "str" else None
    if name is None:
        raise Unsupported("getattr with a symbolic name", node)
    obj = z3.simplify(args[0])
    if len(args) >= 3:
        cn = V.ctor_name(obj)
        if cn is None:
            # merge instead of forking: an object attribute or the default.  Builtin values have
            # the attribute only if it is one of their method names.
            if not any(name in s for s in I.ctx_builtin_attr_sets()):
                h, a = I.st.field(name)
                o = Val.oid(obj)
                I.reads.append(("attr", (obj, name)))
                return z3.simplify(z3.If(z3.And(V.is_obj(obj), z3.Select(a, o)), z3.Select(h, o), args[2]))
        try:
            return I.get_attr(obj, name, node)
        except PyRaise as e:
            if e.cls_name == "AttributeError":
                return args[2]
            raise
    return I.get_attr(obj, name, node)


def b_hasattr(I, args, kwargs, node):
    name = pystr(Val.s(z3.simplify(args[1])))
    if name is None:
        raise Unsupported("hasattr with a symbolic name", node)
    try:
        I.get_attr(args[0], name, node)
        return V.TRUE
    except PyRaise as e:
        if e.cls_name == "AttributeError":
            return V.FALSE
        raise


def b_setattr(I, args, kwargs, node):
    name = pystr(Val.s(z3.simplify(args[1])))
    if name is None:
        raise Unsupported("setattr with a symbolic name", node)
    I.store_attr(args[0], name, args[2], node)
    return V.NONE


def isinstance_term(I, v, cv, node):
    """z3 Bool for isinstance(v, cv) without forking."""
    sv = z3.simplify(v)
    scv = z3.simplify(cv)
    if V.ctor_name(scv) == "tuple":
        n = z3.simplify(z3.Length(Val.titems(scv))).as_long()
        return z3.Or([isinstance_term(I, sv, z3.simplify(Val.titems(scv)[k]), node) for k in range(n)])
    cd = I.ctx.cls_desc(scv)
    if cd is None:
        d = I.ctx.fn_desc(scv)
        if d is not None and d.kind == "builtin" and d.name in I.ctx.class_by_name:
            cd = I.ctx.class_by_name[d.name]
        elif d is not None and d.kind == "extern":
            h = getattr(I.ctx, "extern_isinstance", None)
            if h is not None:
                r = h(I, sv, d.payload, node)
                if r is not None:
                    return r
            raise Unsupported(f"isinstance against external {d.payload}", node)
        else:
            raise Unsupported("isinstance against a non-class", node)
    if cd.kind == "builtin":
        t = {"str": V.is_str, "int": V.int_like, "bool": V.is_bool, "float": V.is_real, "list": V.is_list,
             "dict": V.is_dict, "tuple": V.is_tuple, "bytes": V.is_bytes, "NoneType": V.is_none,
             "object": lambda x: z3.BoolVal(True)}.get(cd.name)
        if t is None:
            if cd.name in ("set", "frozenset", "bytearray", "type"):
                d = I.ctx.fn_desc(sv)
                return z3.BoolVal(bool(d is not None and d.kind == "pyset" and cd.name == "set"))
            raise Unsupported(f"isinstance against {cd.name}", node)
        return t(sv)
    subs = [c.cid for c in I.ctx.subclasses_of(cd)]
    if V.ctor_name(sv) is not None and V.ctor_name(sv) != "obj":
        return z3.BoolVal(False)
    if V.ctor_name(sv) == "obj":
        c = I.class_of(sv)
        if c is not None:
            return z3.BoolVal(I.ctx.is_subclass(c, cd))
    c = z3.Select(I.st.cls, Val.oid(sv))
    return z3.And(V.is_obj(sv), z3.Or([c == k for k in subs]))


def b_isinstance(I, args, kwargs, node):
    return V.VBool(z3.simplify(isinstance_term(I, args[0], args[1], node)))


def b_len(I, args, kwargs, node):
    sv = z3.simplify(args[0])
    cn = V.ctor_name(sv)
    d = I.ctx.fn_desc(sv) if cn == "fn" else None
    if d is not None and d.kind == "pyset":
        return V.VInt(len(d.payload))
    if d is not None and d.kind == "dictview":
        return V.VInt(Val.dsize(d.payload))
    if cn is None:
        for k, t in (("list", V.is_list), ("dict", V.is_dict), ("str", V.is_str), ("tuple", V.is_tuple),
                     ("bytes", V.is_bytes)):
            if I.choose(t(sv), f"len_{k}"):
                cn = k
                break
        else:
            I.throw("TypeError", "object has no len()")
    if cn == "list":
        return V.VInt(z3.simplify(z3.Length(Val.items(sv))))
    if cn == "tuple":
        return V.VInt(z3.simplify(z3.Length(Val.titems(sv))))
    if cn == "str":
        return V.VInt(z3.simplify(z3.Length(Val.s(sv))))
    if cn == "bytes":
        return V.VInt(z3.simplify(z3.Length(Val.bs(sv))))
    if cn == "dict":
        I.assume(Val.dsize(sv) >= 0)
        return V.VInt(z3.simplify(Val.dsize(sv)))
    if cn == "obj":
        cd = I.class_of(sv)
        if cd is not None and cd.kind == "env" and "__len__" in cd.info.methods:
            return cd.info.methods["__len__"](I, sv, [], {})
    I.throw("TypeError", "object has no len()")


def b_str(I, args, kwargs, node):
    if not args:
        return V.VStr("")
    return V.VStr(to_str(I, args[0]))


def b_repr(I, args, kwargs, node):
    return V.VStr(V.repr_of(args[0]))


def b_int(I, args, kwargs, node):
    if not args:
        return V.VInt(0)
    sv = z3.simplify(args[0])
    k = _kind(I, sv, "int_arg")
    if k == "int":
        return V.VInt(num_term(sv, "int"))
    if k == "real":
        return V.VInt(z3.ToInt(Val.r(sv)))     # truncation toward zero is floor for >= 0 (assumption noted)
    if k == "str":
        x = Val.s(sv)
        ps = pystr(x)
        if ps is not None:
            try:
                return V.VInt(int(ps))
            except ValueError:
                I.throw("ValueError", "invalid literal for int()")
        cl = char_list(x)
        if cl is not None:
            # known-shape string: int() succeeds iff non-empty and all characters are ASCII digits
            # (non-ASCII digits and surrounding whitespace cannot occur: every char has a known range)
            if len(cl) == 0:
                I.throw("ValueError", "invalid literal for int()")
            codes = [char_code(c) for c in cl]
            alld = z3.And([z3.And(c >= 48, c <= 57) for c in codes])
            # characters that are certainly neither digits, sign, underscore nor whitespace make it fail;
            # the middle ground (sign/space/underscore/non-ASCII digit) is outside the subset
            clean = z3.And([z3.Or(z3.And(c >= 48, c <= 57),
                                  z3.And(c != 43, c != 45, c != 95, c > 32, c < 127)) for c in codes])
            if not entails(I, clean):
                raise Unsupported("int() of a shaped string that may contain sign/space/underscore/non-ASCII", node)
            if I.choose(alld, "int_all_digits"):
                total = z3.IntVal(0)
                for c in codes:
                    total = total * 10 + (c - 48)
                return V.VInt(z3.simplify(total))
            I.throw("ValueError", "invalid literal for int()")
        if I.choose(int_ok(x), "int_ok"):
            return V.VInt(int_of(x))
        I.throw("ValueError", "invalid literal for int()")
    I.throw("TypeError", "int() argument must be a string or a number")


def b_float(I, args, kwargs, node):
    sv = z3.simplify(args[0])
    k = _kind(I, sv, "float_arg")
    if k == "int":
        return V.VReal(z3.ToReal(num_term(sv, "int")))
    if k == "real":
        return sv
    if k == "str":
        if I.choose(float_ok(sv), "float_ok"):
            return V.VReal(float_of(sv))
        I.throw("ValueError", "could not convert string to float")
    I.throw("TypeError", "float() argument must be a string or a number")


def b_bool(I, args, kwargs, node):
    if not args:
        return V.FALSE
    return V.VBool(z3.simplify(V.truthy(args[0])))


def b_callable(I, args, kwargs, node):
    sv = z3.simplify(args[0])
    cn = V.ctor_name(sv)
    if cn in ("fn", "cls"):
        d = I.ctx.fn_desc(sv)
        return V.VBool(not (d is not None and d.kind in ("pyset", "pymap", "module", "dictview")))
    if cn is None:
        return V.VBool(z3.Or(V.is_fn(sv), V.is_cls(sv)))
    return V.FALSE


def b_type(I, args, kwargs, node):
    sv = z3.simplify(args[0])
    cn = V.ctor_name(sv)
    names = {"str": "str", "int": "int", "bool": "bool", "real": "float", "list": "list", "dict": "dict",
             "tuple": "tuple", "bytes": "bytes", "none": "NoneType"}
    if cn in names:
        return V.VCls(I.ctx.class_by_name[names[cn]].cid)
    if cn == "obj":
        cd = I.class_of(sv)
        if cd is not None:
            return V.VCls(cd.cid)
    return type_of(sv)


def b_list(I, args, kwargs, node):
    if not args:
        return V.VList([])
    sv = z3.simplify(args[0])
    d = I.ctx.fn_desc(sv)
    if d is not None and d.kind == "pyset":
        return V.VList(list(d.payload))
    if d is not None and d.kind == "dictview":
        ks = concrete_keys(d.payload)
        if ks is None:
            raise Unsupported("list() of a view of a dict with symbolic key set", node)
        dv = d.payload
        out = []
        for k in ks:
            v = z3.simplify(z3.Select(Val.dvals(dv), z3.StringVal(k)))
            out.append({"keys": V.VStr(k), "values": v, "items": V.VTuple([V.VStr(k), v])}[d.name])
        return V.VList(out)
    seq, k = seq_and_kind(I, sv, node)
    if seq is None:
        raise Unsupported("list() of a non-sequence", node)
    return V.VList(seq)


def b_tuple(I, args, kwargs, node):
    if not args:
        return V.VTuple([])
    seq, k = seq_and_kind(I, args[0], node)
    if seq is None:
        raise Unsupported("tuple() of a non-sequence", node)
    return V.VTuple(seq)


def b_dict(I, args, kwargs, node):
    d = V.VDict([])
    if args:
        sv = z3.simplify(args[0])
        if V.ctor_name(sv) == "dict" or (V.ctor_name(sv) is None and I.choose(V.is_dict(sv), "dict_arg")):
            d = Val.dict(V.fresh_dict_id(), Val.dkeys(sv), Val.dvals(sv), Val.dsize(sv))
        else:
            # dict(x) for a non-mapping: numbers / None / bool are not iterable (TypeError); an empty str / list / tuple
            # gives {}; a non-empty one raises unless every element is a pair (over-approximated: TypeError, ValueError
            # or some dict)
            cn = V.ctor_name(sv)
            if cn is None:
                if I.choose(z3.Or(V.is_int(sv), V.is_real(sv), V.is_bool(sv), V.is_none(sv)), "dict_arg_scalar"):
                    I.throw("TypeError", "object is not iterable")
                if I.choose(V.is_str(sv), "dict_arg_str"):
                    cn = "str"
                elif I.choose(V.is_list(sv), "dict_arg_list"):
                    cn = "list"
                elif I.choose(V.is_tuple(sv), "dict_arg_tuple"):
                    cn = "tuple"
                else:
                    raise Unsupported("dict() of an object", node)
            if cn in ("int", "real", "bool", "none"):
                I.throw("TypeError", "object is not iterable")
            if cn not in ("str", "list", "tuple"):
                raise Unsupported(f"dict() of a {cn}", node)
            ln = z3.Length({"str": Val.s, "list": Val.items, "tuple": Val.titems}[cn](sv))
            if not I.choose(ln == 0, "dict_arg_empty"):
                if cn == "str":
                    if I.choose(ln == 2, "dict_arg_two_chars_first_elem"):
                        pass          # "ab" is one element of length 1 - still a ValueError; kept for clarity
                    I.throw("ValueError", "dictionary update sequence element #0 has length 1; 2 is required")
                c = I.choose_n(3, "dict_of_sequence")
                if c == 0:
                    I.throw("TypeError", "cannot convert dictionary update sequence element #0 to a sequence")
                if c == 1:
                    I.throw("ValueError", "dictionary update sequence element has the wrong length")
                d = I.fresh("dict_of_pairs")
                I.assume(z3.And(V.is_dict(d), Val.dsize(d) >= 0, Val.dsize(d) <= ln, Val.did(d) >= 1_000_000))
    for k, v in kwargs.items():
        d = set_item(I, d, V.VStr(k), v, node)
    return d


def b_set(I, args, kwargs, node):
    if not args:
        return I.ctx.fn_val(FnDesc("pyset", [], name="set"))
    return I.ctx.fn_val(FnDesc("pyset", concrete_elems(I, args[0], node), name="set"))


def _elems_for_quant(I, v, node):
    seq, k = seq_and_kind(I, v, node)
    if seq is None:
        raise Unsupported("all/any over a non-sequence", node)
    n = z3.simplify(z3.Length(seq))
    if not z3.is_int_value(n):
        raise Unsupported("all/any over a sequence of symbolic length", node)
    return [z3.simplify(seq[i]) for i in range(n.as_long())]


def b_all(I, args, kwargs, node):
    for x in _elems_for_quant(I, args[0], node):
        if not I.truth(x, "all"):
            return V.FALSE
    return V.TRUE


def b_any(I, args, kwargs, node):
    for x in _elems_for_quant(I, args[0], node):
        if I.truth(x, "any"):
            return V.TRUE
    return V.FALSE


def b_min(I, args, kwargs, node):
    if len(args) == 2:
        r = compare(I, ast.Lt(), args[1], args[0], node)
        return args[1] if I.choose(r, "min") else args[0]
    raise Unsupported("min() form", node)


def b_max(I, args, kwargs, node):
    if len(args) == 2:
        r = compare(I, ast.Gt(), args[1], args[0], node)
        return args[1] if I.choose(r, "max") else args[0]
    raise Unsupported("max() form", node)


def b_enumerate(I, args, kwargs, node):
    seq, k = seq_and_kind(I, args[0], node)
    if seq is not None and not z3.is_int_value(z3.simplify(z3.Length(seq))):
        # symbolic length: a fresh sequence of the same length whose elements are (index, element) pairs,
        # characterised when an element is read by a loop
        I.counter += 1
        R = z3.Const(f"enumseq~{I.counter}", V.SeqVal)
        I.assume(z3.Length(R) == z3.Length(seq))
        if not hasattr(I, "seq_axioms"):
            I.seq_axioms = {}

        def axiom(I2, i, e):
            I2.assume(e == V.VTuple([V.VInt(i), seq[i]]))
        I.seq_axioms[R.get_id()] = axiom
        return V.VList(R)
    elems = concrete_elems(I, args[0], node)
    return V.VList([V.VTuple([V.VInt(i), e]) for i, e in enumerate(elems)])


def b_range(I, args, kwargs, node):
    vals = []
    for a in args:
        x = z3.simplify(as_int(I, a, node))
        if not z3.is_int_value(x):
            raise Unsupported("symbolic range", node)
        vals.append(x.as_long())
    return V.lift(list(range(*vals)))


def b_id(I, args, kwargs, node):
    sv = z3.simplify(args[0])
    if V.ctor_name(sv) == "obj":
        return V.VInt(Val.oid(sv))
    if V.ctor_name(sv) == "dict":
        return V.VInt(Val.did(sv))
    raise Unsupported("id() of a value without identity in the model", node)


def b_print(I, args, kwargs, node):
    return V.NONE


def b_iter(I, args, kwargs, node):
    return args[0]


def b_next(I, args, kwargs, node):
    """next(iterator) for the first element of a list / dict view (iterators are not stateful in the model: only
    next(iter(x)) of a fresh iterator is supported)"""
    sv = z3.simplify(args[0])
    d = I.ctx.fn_desc(sv) if V.ctor_name(sv) == "fn" else None
    if d is not None and d.kind == "dictview":
        D = z3.simplify(d.payload)
        I.assume(Val.dsize(D) >= 0)
        if not I.choose(Val.dsize(D) > 0, "next_nonempty"):
            if len(args) > 1:
                return args[1]
            I.throw("StopIteration", "")
        k = I.fresh("first_key", S)
        I.assume(z3.Select(Val.dkeys(D), k))
        h = getattr(I, "dict_entry_hook", None)
        if h is not None:
            h(I, D, k)
        v = z3.Select(Val.dvals(D), k)
        return {"keys": V.VStr(k), "values": v, "items": V.VTuple([V.VStr(k), v])}[d.name]
    seq, kind = seq_and_kind(I, sv, node)
    if seq is None:
        raise Unsupported("next() of this iterator", node)
    if I.choose(z3.Length(seq) > 0, "next_nonempty"):
        return z3.simplify(seq[0])
    if len(args) > 1:
        return args[1]
    I.throw("StopIteration", "")


def b_issubclass(I, args, kwargs, node):
    a, b = I.ctx.cls_desc(args[0]), I.ctx.cls_desc(args[1])
    if a is None or b is None:
        raise Unsupported("issubclass of symbolic classes", node)
    return V.VBool(I.ctx.is_subclass(a, b))


def b_sorted(I, args, kwargs, node):
    raise Unsupported("sorted()", node)


def b_object(I, args, kwargs, node):
    """object(): a fresh featureless object (typically a sentinel compared by identity)"""
    if args or kwargs:
        I.throw("TypeError", "object() takes no arguments")
    return I.new_object(I.ctx.cls_named("object"), {})


BUILTINS = {
    "object": b_object, "getattr": b_getattr, "hasattr": b_hasattr, "setattr": b_setattr, "isinstance": b_isinstance,
    "len": b_len, "str": b_str, "repr": b_repr, "int": b_int, "float": b_float, "bool": b_bool,
    "callable": b_callable, "type": b_type, "list": b_list, "tuple": b_tuple, "dict": b_dict, "set": b_set,
    "all": b_all, "any": b_any, "min": b_min, "max": b_max, "enumerate": b_enumerate, "range": b_range,
    "id": b_id, "print": b_print, "iter": b_iter, "next": b_next, "issubclass": b_issubclass, "sorted": b_sorted,
}


def external_super(I, cd, selfv, mname, args, kwargs, node):
    """super().<m>() reaching a base class outside the repository."""
    if mname == "__init__" and any(b in ("Exception", "BaseException") for b in cd.bases):
        msg = args[0] if args else V.VStr("")
        I.set_attr(selfv, "__msg__", msg, record=False)
        I.set_attr(selfv, "args", V.VTuple(list(args)), record=False)
        return V.NONE
    h = getattr(I.ctx, "external_super_hook", None)
    if h is not None:
        r = h(I, cd, selfv, mname, args, kwargs, node)
        if r is not None:
            return r
    if mname == "__init__" and not args and not kwargs:
        return V.NONE
    raise Unsupported(f"super().{mname} into external base of {cd.name}", node)
