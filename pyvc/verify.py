"""Driver: explores all paths of a function under contract, collects named obligations and
discharges them with z3 (fork-based pool).  Verdict protocol: DESIGN.md section 4."""
from __future__ import annotations

import multiprocessing as mp
import os
import time
import traceback
from dataclasses import dataclass, field
from typing import Any, Callable, Dict, List, Optional, Tuple

import z3

from . import vals as V
from .vals import Val
from .core import Context, Obligation, PyRaise, PathEnd, EngineError, ReturnSig
from .interp import Exec
from .loader import Unsupported, FuncInfo


class Contract:
    """Sidecar contract of one function in /repo.  Subclasses override what they need.

    key      : 'src/chuk_mcp/...py::qual.name'
    setup(I) : build symbolic inputs / environment objects, assume the precondition; returns (args, kwargs)
    post(I, result)     : obligations on normal return
    post_exc(I, e)      : obligations on exceptional exit (default: no exception may escape)
    loops    : {ordinal: fn(I, phase) -> [(name, z3 Bool)]}
    apply(I, args, kwargs, node) : modular use at a call site (assert requires, assume ensures)
    """
    key: str = ""
    prop: str = ""
    loops: Dict[int, Callable] = {}
    allowed_exceptions: Tuple[str, ...] = ()
    covers: Tuple[str, ...] = ("return",)       # outcome classes that must be reachable (vacuity guard)

    def name(self, clause):
        fn = self.key.split("::")[1]
        return f"{self.prop}.{fn}.{clause}"

    def setup(self, I):
        raise NotImplementedError

    def post(self, I, result):
        pass

    def post_exc(self, I, e: PyRaise):
        ok = e.cls_name in self.allowed_exceptions
        I.oblige(self.name(f"raises_only_allowed[{e.cls_name}]"), z3.BoolVal(ok), exc=e.cls_name)

    def apply(self, I, args, kwargs, node):
        raise Unsupported(f"contract {self.key} has no call-site form", node)


@dataclass
class FunctionResult:
    key: str
    obligations: List[Obligation] = field(default_factory=list)
    paths: int = 0
    rounds: int = 0
    unsupported: List[str] = field(default_factory=list)
    outcomes: Dict[str, int] = field(default_factory=dict)
    wall_s: float = 0.0
    span: Tuple[int, int] = (0, 0)
    source_hash: str = ""
    file: str = ""
    errors: List[str] = field(default_factory=list)


def explore(ctx: Context, contract: Contract, runner: Callable = None) -> FunctionResult:
    """All paths of the function under `contract`, iterated until loop write sets are stable."""
    t0 = time.time()
    res = FunctionResult(contract.key)
    try:
        fi = ctx.repo.function(contract.key)
    except Unsupported as u:
        res.unsupported.append(str(u))
        return res
    res.span = fi.span()
    res.source_hash = fi.source_hash()
    res.file = fi.module.relpath
    for rnd in range(8):
        ctx.loop_writes_changed = False
        res.obligations = []
        res.paths = 0
        res.outcomes = {}
        res.unsupported = []
        worklist: List[Tuple] = [()]
        pid = 0
        while worklist:
            prefix = worklist.pop()
            pid += 1
            if pid > ctx.max_paths:
                res.unsupported.append(f"path budget exceeded ({ctx.max_paths})")
                break
            I = Exec(ctx, prefix, pid, worklist)
            I.verifying = contract.key
            I.cur_func = fi.qualname
            outcome = None
            try:
                args, kwargs = contract.setup(I)
                I.entry = dict(heap=dict(I.st.heap), has=dict(I.st.has), cls=I.st.cls, now=I.st.now)
                try:
                    if runner is not None:
                        result = runner(I, fi, args, kwargs)
                    else:
                        result = I.call_function(fi, args, kwargs, None, inline=True)
                    outcome = "return"
                    I.cur_line = fi.node.end_lineno
                    contract.post(I, result)
                except PyRaise as e:
                    outcome = f"raise:{e.cls_name}"
                    I.cur_line = fi.node.end_lineno
                    contract.post_exc(I, e)
            except PathEnd as pe:
                outcome = None
            except Unsupported as u:
                res.unsupported.append(f"{u} [in {I.cur_func}:{I.cur_line}]")
                outcome = None
            except z3.Z3Exception as ze:
                res.errors.append(f"z3 error on path {pid}: {ze}\n{traceback.format_exc()}")
            if outcome is not None:
                # only count outcomes whose path condition is satisfiable
                if I._check() == z3.sat:
                    res.outcomes[outcome] = res.outcomes.get(outcome, 0) + 1
            res.obligations.extend(I.obligations)
            res.paths += 1
        res.rounds = rnd + 1
        if not ctx.loop_writes_changed:
            break
    ctx.stats["paths"] += res.paths
    res.wall_s = time.time() - t0
    return res


def run_paths(ctx: Context, contract: Contract, fi, prefixes: List[Tuple], budget: int, seconds: float = 20.0):
    """Worker-side: explore up to `budget` paths depth-first starting from the given decision prefixes.
    Returns (remaining prefixes, obligations, outcomes, unsupported, errors, paths run)."""
    worklist: List[Tuple] = list(prefixes)
    obls: List[Obligation] = []
    outcomes: Dict[str, int] = {}
    unsupported: List[str] = []
    errors: List[str] = []
    runner = getattr(contract, "runner", None)
    done = 0
    t0 = time.time()
    while worklist and done < budget and (done == 0 or time.time() - t0 < seconds):
        prefix = worklist.pop()
        done += 1
        I = Exec(ctx, prefix, done, worklist)
        I.verifying = contract.key
        I.cur_func = fi.qualname
        outcome = None
        try:
            args, kwargs = contract.setup(I)
            I.entry = dict(heap=dict(I.st.heap), has=dict(I.st.has), cls=I.st.cls, now=I.st.now)
            try:
                if runner is not None:
                    result = runner(I, fi, args, kwargs)
                else:
                    result = I.call_function(fi, args, kwargs, None, inline=True)
                outcome = "return"
                I.cur_line = fi.node.end_lineno
                contract.post(I, result)
            except PyRaise as e:
                outcome = f"raise:{e.cls_name}"
                I.cur_line = fi.node.end_lineno
                contract.post_exc(I, e)
        except PathEnd:
            outcome = None
        except Unsupported as u:
            unsupported.append(f"{u} [in {I.cur_func}:{I.cur_line}]")
            outcome = None
        except z3.Z3Exception as ze:
            errors.append(f"z3 error: {ze}\n{traceback.format_exc()[-2000:]}")
        if outcome is not None and I._check() == z3.sat:
            outcomes[outcome] = outcomes.get(outcome, 0) + 1
        obls.extend(I.obligations)
    return worklist, obls, outcomes, unsupported, errors, done


# --------------------------------------------------------------------------- discharge
_OBLS: List[Obligation] = []
_TIMEOUT_MS = 30000


def _model_dict(m, ob):
    model = {}
    for k, t in (ob.meta.get("watch") or {}).items():
        try:
            model[k] = V.decode(m.eval(t, model_completion=True))
        except Exception as ex:       # pragma: no cover
            model[k] = f"<{ex}>"
    model["__model__"] = str(m)[:4000]
    return model


def _discharge_one(idx):
    """Two stages: (1) only the quantifier-free part of the path condition (sound: fewer assumptions) -
    fast and decides most obligations; (2) the full path condition.  When (2) is inconclusive but (1) gave
    a model, that model is returned as a *candidate* counterexample (verdict stays 'unknown'): only a native
    replay can turn it into a violation."""
    from .core import has_quantifier
    ob = _OBLS[idx]
    t0 = time.time()
    g = ob.goal
    if z3.is_true(g):
        return idx, "unsat", 0.0, None, "trivial"
    quant = [c for c in ob.pc if has_quantifier(c)]
    candidate = None
    if quant:
        s1 = z3.Solver()
        s1.set("timeout", max(2000, _TIMEOUT_MS // 3))
        for c in ob.pc:
            if not has_quantifier(c):
                s1.add(c)
        s1.add(z3.Not(g))
        r1 = s1.check()
        if r1 == z3.unsat:
            return idx, "unsat", time.time() - t0, None, "ground part suffices"
        if r1 == z3.sat:
            candidate = _model_dict(s1.model(), ob)
    s = z3.Solver()
    s.set("timeout", _TIMEOUT_MS)
    for c in ob.pc:
        s.add(c)
    s.add(z3.Not(g))
    r = s.check()
    model = None
    if r == z3.sat:
        model = _model_dict(s.model(), ob)
    reason = s.reason_unknown() if r == z3.unknown else ""
    if r == z3.unknown and candidate is not None:
        candidate["__candidate__"] = True
        model = candidate
    return idx, str(r), time.time() - t0, model, reason


def discharge(obls: List[Obligation], timeout_ms=30000, procs=None, stop_at_sat=False):
    """Returns a list of (obligation, verdict, seconds, model, reason) in input order."""
    global _OBLS, _TIMEOUT_MS
    _OBLS = obls
    _TIMEOUT_MS = timeout_ms
    if not obls:
        return []
    if stop_at_sat:
        out = []
        for i in range(len(obls)):
            r = _discharge_one(i)
            out.append(r)
            if r[1] == "sat":
                break
        return [(obls[i], v, t, m, why) for i, v, t, m, why in out]
    procs = procs or min(16, os.cpu_count() or 4, max(1, len(obls)))
    if procs <= 1 or len(obls) < 4:
        out = [_discharge_one(i) for i in range(len(obls))]
    else:
        ctxmp = mp.get_context("fork")
        with ctxmp.Pool(procs) as pool:
            out = pool.map(_discharge_one, range(len(obls)), chunksize=max(1, len(obls) // (procs * 4)))
    out.sort()
    return [(obls[i], v, t, m, why) for i, v, t, m, why in out]
