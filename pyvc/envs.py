"""Environment contracts (DESIGN.md section 3.2): everything the code touches that is not chuk-mcp.
Each is an explicit, listed assumption with ghost state kept in heap fields of an environment object.
Methods are python callables over the interpreter: (I, recv, args, kwargs) -> Val, raising PyRaise
for the exceptional outcomes; nondeterminism of the environment goes through I.choose_n.
"""
from __future__ import annotations

from typing import Any, Callable, Dict, List, Optional

import z3

from . import vals as V
from .vals import Val
from .core import FnDesc, PyRaise, PathEnd, Context
from .loader import Unsupported
from . import prelude as P


def is_async(fn):
    def wrapper(*a, **k):
        return fn(*a, **k)
    wrapper.is_async = True
    wrapper.__name__ = getattr(fn, "__name__", "envfn")
    return wrapper


class EnvClass:
    name = "Env"
    bases: List[str] = []
    methods: Dict[str, Callable] = {}

    def construct(self, I, args, kwargs, node):
        raise Unsupported(f"construction of environment class {self.name}", node)


def new_env_object(I, env: EnvClass, **attrs):
    cd = I.ctx.env_class(env)
    return I.new_object(cd, attrs)


def gfield(I, ov, name):
    """ghost field read (must exist)."""
    v, has = I.get_field(ov, name)
    return v


# --------------------------------------------------------------------------- ghost clock / cancel scopes
def clock_advance(I, upto=None):
    """Time passes at an await: now' >= now (and <= upto if given)."""
    n2 = I.fresh_real("now")
    I.assume(n2 >= I.st.now)
    if upto is not None:
        I.assume(n2 <= upto)
    I.st.now = n2
    I.record_write(("clock",))
    return n2


def checkpoint(I, label="await", may_block=True):
    """A cancellation point.  The environment decides: proceed, or deliver the cancellation of an active
    scope.  Cancellation is level-triggered: once a scope is cancelled every later checkpoint inside it
    raises again.  With deadlines (ghost clock): blocking returns at now' <= min deadline, or the scope
    with the smallest deadline fires at now' == its deadline."""
    st = I.st
    # already-cancelled enclosing scope (not shielded from it): must raise
    for k in range(len(st.scopes) - 1, -1, -1):
        sc = st.scopes[k]
        if sc.get("cancelled"):
            raise_cancelled(I)
        if sc.get("shield"):
            break
    active = []
    for k in range(len(st.scopes) - 1, -1, -1):
        sc = st.scopes[k]
        if sc.get("deadline") is not None or sc.get("external"):
            active.append(sc)
        if sc.get("shield"):
            break
    opts = ["proceed"] + [("fire", sc) for sc in active]
    c = I.choose_n(len(opts), label)
    dls = [sc["deadline"] for sc in active if sc.get("deadline") is not None]
    if c == 0:
        n2 = I.fresh_real("now")
        I.assume(n2 >= st.now)
        for d in dls:
            I.assume(n2 <= d)
        if not may_block:
            I.assume(n2 == st.now)
        st.now = n2
        I.record_write(("clock",))
        return
    sc = opts[c][1]
    if sc.get("deadline") is not None:
        # the scope whose deadline is the smallest fires, at its deadline
        for d in dls:
            I.assume(sc["deadline"] <= d)
        n2 = I.fresh_real("now")
        I.assume(n2 >= st.now)
        I.assume(n2 == z3.If(sc["deadline"] >= st.now, sc["deadline"], st.now))
        st.now = n2
        I.record_write(("clock",))
    sc["cancelled"] = True
    raise_cancelled(I)


def raise_cancelled(I):
    raise PyRaise(I.make_exc("CancelledError", V.VStr("cancelled")), "CancelledError")


class CancelScopeEnv(EnvClass):
    """anyio.fail_after / move_on_after / CancelScope.  Ghost: a record on I.st.scopes."""
    closed_api = True
    name = "CancelScope"

    def __init__(self):
        self.methods = {"__enter__": self.enter, "__exit__": self.exit, "cancel": self.cancel}

    def enter(self, I, recv, args, kwargs):
        rec = I.scope_records[I.oid_of(recv).as_long()]
        rec["cancelled"] = rec.get("cancelled", False)
        if rec.get("delay") is not None:
            rec["deadline"] = I.st.now + rec["delay"]
        I.st.scopes.append(rec)
        return recv

    def exit(self, I, recv, args, kwargs, exc=None):
        rec = I.scope_records[I.oid_of(recv).as_long()]
        assert I.st.scopes and I.st.scopes[-1] is rec, "scope stack discipline"
        I.st.scopes.pop()
        if exc is not None and exc.cls_name == "CancelledError" and rec.get("cancelled"):
            # caught by this scope unless an enclosing scope is cancelled as well
            # anyio: swallowed iff no cancelled parent scope is visible: none if this scope is shielded, else
            # walk the enclosing scopes innermost first up to the first shielded one
            outer_cancelled = False
            if not rec.get("shield"):
                for s in reversed(I.st.scopes):
                    if s.get("cancelled"):
                        outer_cancelled = True
                        break
                    if s.get("shield"):
                        break
            if not outer_cancelled:
                rec["cancelled_caught"] = True
                if rec["kind"] == "fail_after":
                    I.throw("TimeoutError", "deadline exceeded")
                return V.TRUE            # move_on_after / plain CancelScope swallows its own cancellation
        return V.FALSE

    def cancel(self, I, recv, args, kwargs):
        rec = I.scope_records[I.oid_of(recv).as_long()]
        rec["cancelled"] = True
        rec["cancel_requested"] = True
        return V.NONE

    def getattr_hook(self, I, recv, name):
        """the scope's status attributes.  cancel_called: cancel() was requested, or the deadline has been reached -
        INCLUDING the instant at which an operation inside the scope completed exactly at the deadline (the deadline
        callback and the completion are handled in the same event-loop turn: the operation's result is delivered and
        cancel_called is already true).  cancelled_caught: the scope swallowed its own cancellation on exit."""
        rec = I.scope_records.get(I.oid_of(recv).as_long()) if hasattr(I, "scope_records") else None
        if rec is None:
            return None
        if name == "cancel_called":
            if rec.get("cancel_requested") or rec.get("cancelled"):
                return V.TRUE
            if rec.get("deadline") is not None:
                return V.VBool(I.st.now >= rec["deadline"])
            return V.FALSE
        if name in ("cancelled_caught", "cancel_caught"):
            return V.VBool(bool(rec.get("cancelled_caught")))
        if name == "shield":
            return V.VBool(bool(rec.get("shield")))
        if name == "deadline":
            return V.VReal(rec["deadline"]) if rec.get("deadline") is not None else V.VReal(z3.RealVal("1e30"))
        return None


CANCEL_SCOPE = CancelScopeEnv()


def make_scope(I, kind, delay=None, shield=False):
    ov = new_env_object(I, CANCEL_SCOPE)
    if not hasattr(I, "scope_records"):
        I.scope_records = {}
    I.scope_records[I.oid_of(ov).as_long()] = dict(kind=kind, delay=delay, deadline=None, shield=shield,
                                                   cancelled=False, oid=I.oid_of(ov).as_long())
    return ov


def _delay_term(I, v, node):
    sv = z3.simplify(v)
    k = P._kind(I, sv, "delay")
    if k == "int":
        return z3.ToReal(P.num_term(sv, "int"))
    if k == "real":
        return Val.r(sv)
    if k == "none":
        return None
    I.throw("TypeError", "delay must be a number")


def x_fail_after(I, args, kwargs, node):
    d = _delay_term(I, args[0] if args else kwargs.get("delay", V.NONE), node)
    sh = kwargs.get("shield", V.FALSE)
    return make_scope(I, "fail_after", d, shield=V.concrete_bool(V.truthy(sh)) is True)


def x_move_on_after(I, args, kwargs, node):
    d = _delay_term(I, args[0] if args else kwargs.get("delay", V.NONE), node)
    sh = kwargs.get("shield", V.FALSE)
    return make_scope(I, "move_on_after", d, shield=V.concrete_bool(V.truthy(sh)) is True)


def x_cancel_scope(I, args, kwargs, node):
    sh = kwargs.get("shield", V.FALSE)
    return make_scope(I, "scope", None, shield=V.concrete_bool(V.truthy(sh)) is True)


# --------------------------------------------------------------------------- streams
class ReadStreamEnv(EnvClass):
    """anyio MemoryObjectReceiveStream.  Ghost: incoming (everything that will ever arrive, in order),
    pos (how many have been consumed).  receive() begins with a checkpoint (anyio 4.x), then either
    delivers incoming[pos] or blocks until a scope fires; if the history is exhausted it may also raise
    EndOfStream / ClosedResourceError."""
    closed_api = True
    name = "ReadStream"

    def __init__(self):
        self.methods = {"receive": is_async(self.receive), "__anext__": is_async(self.anext),
                        "__aiter__": self.aiter, "aclose": is_async(self.aclose),
                        "receive_nowait": self.receive_nowait}
        self.on_consume: Optional[Callable] = None

    def _deliver(self, I, recv):
        inc = Val.items(gfield(I, recv, "incoming"))
        pos = Val.i(gfield(I, recv, "pos"))
        I.assume(z3.And(pos >= 0, pos <= z3.Length(inc)))
        return inc, pos

    def receive(self, I, recv, args, kwargs, as_iter=False):
        pre = getattr(self, "pre_receive", None)
        if pre is not None:
            pre(I, recv)
        inc, pos = self._deliver(I, recv)
        closed = V.concrete_bool(V.truthy(gfield(I, recv, "closed")))
        if closed:
            I.throw("ClosedResourceError", "")
        c = I.choose_n(3, "receive")
        if c == 0:
            # a message is available (now or after waiting)
            checkpoint_nofire(I)
            I.assume_checked(pos < z3.Length(inc))
            m = z3.simplify(inc[pos])
            I.set_attr(recv, "pos", V.VInt(z3.simplify(pos + 1)))
            rely = getattr(self, "rely", None)
            if self.on_consume is not None:
                self.on_consume(I, recv, m)
            return m
        if c == 1:
            # nothing arrives before a scope fires (or an already cancelled scope is noticed)
            checkpoint_mustfire(I)
        # the sending side is gone
        checkpoint_nofire(I)
        I.assume_checked(pos == z3.Length(inc))
        if as_iter:
            I.throw("StopAsyncIteration", "")
        I.throw("EndOfStream", "")

    def anext(self, I, recv, args, kwargs):
        return self.receive(I, recv, args, kwargs, as_iter=True)

    def aiter(self, I, recv, args, kwargs):
        return recv

    def aclose(self, I, recv, args, kwargs):
        I.set_attr(recv, "closed", V.TRUE)
        return V.NONE

    def receive_nowait(self, I, recv, args, kwargs):
        inc, pos = self._deliver(I, recv)
        if I.choose(pos < z3.Length(inc), "nowait_available"):
            m = z3.simplify(inc[pos])
            I.set_attr(recv, "pos", V.VInt(z3.simplify(pos + 1)))
            return m
        I.throw("WouldBlock", "")


def checkpoint_nofire(I, zero_time=False):
    """checkpoint that proceeds: no enclosing scope is already cancelled, time may pass within deadlines."""
    st = I.st
    for k in range(len(st.scopes) - 1, -1, -1):
        sc = st.scopes[k]
        if sc.get("cancelled"):
            raise PathEnd("a cancelled scope would have fired")
        if sc.get("shield"):
            break
    n2 = I.fresh_real("now")
    I.assume(n2 >= st.now)
    for k in range(len(st.scopes) - 1, -1, -1):
        sc = st.scopes[k]
        if sc.get("deadline") is not None:
            I.assume(n2 <= sc["deadline"])
        if sc.get("shield"):
            break
    if zero_time:
        I.assume(n2 == st.now)
    I.prev_now = st.now
    st.now = n2
    I.record_write(("clock",))
    I.ghost["checkpoints"] = I.ghost.get("checkpoints", 0) + 1
    for h in getattr(I, "checkpoint_hooks", []):
        h(I)


def checkpoint_mustfire(I):
    """blocked until some active scope fires (ends the path if there is none)."""
    st = I.st
    for k in range(len(st.scopes) - 1, -1, -1):
        sc = st.scopes[k]
        if sc.get("cancelled"):
            raise_cancelled(I)
        if sc.get("shield"):
            break
    active = []
    for k in range(len(st.scopes) - 1, -1, -1):
        sc = st.scopes[k]
        if sc.get("deadline") is not None or sc.get("external"):
            active.append(sc)
        if sc.get("shield"):
            break
    if not active:
        raise PathEnd("blocks forever (no scope can fire)")
    c = I.choose_n(len(active), "which_scope_fires")
    sc = active[c]
    dls = [s["deadline"] for s in active if s.get("deadline") is not None]
    I.prev_now = st.now
    if sc.get("deadline") is not None:
        for d in dls:
            I.assume(sc["deadline"] <= d)
        n2 = I.fresh_real("now")
        I.assume(n2 == z3.If(sc["deadline"] >= st.now, sc["deadline"], st.now))
        st.now = n2
    else:
        n2 = I.fresh_real("now")
        I.assume(n2 >= st.now)
        for d in dls:
            I.assume(n2 <= d)
        st.now = n2
    I.record_write(("clock",))
    I.ghost["checkpoints"] = I.ghost.get("checkpoints", 0) + 1
    for h in getattr(I, "checkpoint_hooks", []):
        h(I)
    sc["cancelled"] = True
    raise_cancelled(I)


class WriteStreamEnv(EnvClass):
    """anyio MemoryObjectSendStream.  Ghost: written (messages accepted so far), closed."""
    closed_api = True
    name = "WriteStream"

    def __init__(self, zero_time=False):
        self.methods = {"send": is_async(self.send), "aclose": is_async(self.aclose),
                        "send_nowait": self.send_nowait, "clone": self.clone}
        self.zero_time = zero_time      # buffered stream with room: send completes without virtual delay

    def clone(self, I, recv, args, kwargs):
        """clone(): ANOTHER send end of the same channel - a distinct object; the channel only ends for its receiver
        when every send end has been closed"""
        return new_env_object(I, self, written=V.VList([]), attempted=V.VList([]), closed=V.FALSE)

    def send(self, I, recv, args, kwargs):
        att = Val.items(gfield(I, recv, "attempted"))
        I.set_attr(recv, "attempted", V.VList(z3.simplify(z3.Concat(att, z3.Unit(args[0])))))
        c = I.choose_n(2 if self.zero_time else 3, "send")
        if c == 0:
            checkpoint_nofire(I, zero_time=self.zero_time)
            w = Val.items(gfield(I, recv, "written"))
            I.set_attr(recv, "written", V.VList(z3.simplify(z3.Concat(w, z3.Unit(args[0])))))
            return V.NONE
        if c == 1:
            checkpoint_nofire(I, zero_time=self.zero_time)
            k = I.choose_n(2, "send_error")
            I.throw(["BrokenResourceError", "ClosedResourceError"][k], "")
        checkpoint_mustfire(I)

    def send_nowait(self, I, recv, args, kwargs):
        c = I.choose_n(3, "send_nowait")
        if c == 0:
            w = Val.items(gfield(I, recv, "written"))
            I.set_attr(recv, "written", V.VList(z3.simplify(z3.Concat(w, z3.Unit(args[0])))))
            return V.NONE
        I.throw(["WouldBlock", "BrokenResourceError"][c - 1], "")

    def aclose(self, I, recv, args, kwargs):
        I.set_attr(recv, "closed", V.TRUE)
        return V.NONE


READ_STREAM = ReadStreamEnv()
WRITE_STREAM = WriteStreamEnv()


def make_read_stream(I, name="rs", env: ReadStreamEnv = None):
    inc = I.fresh(f"{name}_incoming", V.SeqVal)
    return new_env_object(I, env or READ_STREAM, incoming=V.VList(inc), pos=V.VInt(0), closed=V.FALSE)


def make_write_stream(I, name="ws", env: WriteStreamEnv = None):
    return new_env_object(I, env or WRITE_STREAM, written=V.VList([]), attempted=V.VList([]), closed=V.FALSE)


# --------------------------------------------------------------------------- user callbacks
class CallbackEnv(EnvClass):
    """A caller-supplied callable (progress callback, handler, tool).  Ghost: calls (argument tuples in
    order).  Outcome: returns a value of unknown shape, or raises any Exception.  Takes no virtual time."""
    name = "Callback"

    def __init__(self, is_async_cb=True, may_raise=True):
        f = self.call
        if is_async_cb:
            f = is_async(self.call)
        self.methods = {"__call__": f}
        self.may_raise = may_raise

    def call(self, I, recv, args, kwargs):
        calls = Val.items(gfield(I, recv, "calls"))
        I.set_attr(recv, "calls", V.VList(z3.simplify(z3.Concat(calls, z3.Unit(V.VTuple(list(args)))))))
        if self.may_raise and I.choose_n(2, "callback_outcome") == 1:
            raise PyRaise(I.make_exc("AnyException", V.VStr(I.fresh("cbmsg", z3.StringSort()))), "AnyException")
        return I.fresh("cbret")


CALLBACK = CallbackEnv()
SYNC_CALLBACK = CallbackEnv(is_async_cb=False)
SYNC_CALLBACK.name = "SyncCallback"


def make_callback(I, env=None):
    return new_env_object(I, env or CALLBACK, calls=V.VList([]))


# --------------------------------------------------------------------------- small externs
re_match_fn = z3.Function("re_match", z3.StringSort(), z3.StringSort(), z3.BoolSort())


def x_re_match(I, args, kwargs, node):
    """re.match is not interpreted.  Assumed (audited): the MCP date pattern matches every string of
    shape dddd-dd-dd over ASCII digits."""
    pat, s = z3.simplify(args[0]), z3.simplify(args[1])
    ps = P.pystr(Val.s(pat)) if V.ctor_name(pat) == "str" else None
    if V.ctor_name(s) != "str":
        if V.ctor_name(s) is not None or not I.choose(V.is_str(s), "re_arg_is_str"):
            I.throw("TypeError", "expected string or bytes-like object")
    x = Val.s(s)
    if ps == r"^\d{4}-\d{2}-\d{2}$":
        cl = P.char_list(x)
        if cl is not None and len(cl) == 10 and cl[4] == "-" and cl[7] == "-":
            digs = [P.char_code(c) for k, c in enumerate(cl) if k not in (4, 7)]
            if P.entails(I, z3.And([z3.And(c >= 48, c <= 57) for c in digs])):
                I.ctx.assumptions.add("re.match(r'^\\d{4}-\\d{2}-\\d{2}$', s) succeeds on every ASCII dddd-dd-dd string "
                                      "(assumed; audited against CPython's re on the full date grid)")
                return V.VStr("<match>")
    m = re_match_fn(Val.s(pat), x)
    return V.VStr("<match>") if I.choose(m, "re_match") else V.NONE


def x_time_time(I, args, kwargs, node):
    """time.time(): reads the ghost clock; the clock may advance between statements."""
    n2 = I.fresh_real("now")
    I.assume(n2 >= I.st.now)
    I.st.now = n2
    I.record_write(("clock",))
    return V.VReal(n2)


uuid_str = z3.Function("uuid_str", z3.IntSort(), z3.StringSort())


class UUIDEnv(EnvClass):
    name = "UUID"

    def __init__(self):
        self.methods = {"__str__": self.str_}

    def str_(self, I, recv, args, kwargs):
        return gfield(I, recv, "text")

    def getattr_hook(self, I, recv, name):
        if name == "hex":
            # UUID.hex == str(u) without the dashes
            from . import prelude as P2
            t = Val.s(gfield(I, recv, "text"))
            cl = P2.char_list(t)
            if cl is not None:
                return V.VStr(P2.from_chars([c for c in cl if not (isinstance(c, str) and c == "-")]))
            return V.VStr(P2.replace_all(t, z3.StringVal("-"), z3.StringVal("")))
        return None


UUID_ENV = UUIDEnv()
HEX = "0123456789abcdef"


def x_uuid4(I, args, kwargs, node):
    """uuid.uuid4(): an object whose str() is a canonical 8-4-4-4-12 lower-case hex string.  Freshness
    (differs from every uuid seen before) is an assumption recorded by the caller's contract.
    ctx.uuid_chars = True keeps the 36 characters individually (needed to reason about replace('-', ''));
    otherwise the text is an opaque string of length 36 (much cheaper for the string solver)."""
    if not hasattr(I, "uuids"):
        I.uuids = []
    if getattr(I.ctx, "uuid_chars", False):
        chars = []
        for k in range(36):
            if k in (8, 13, 18, 23):
                chars.append("-")
            else:
                c = I.fresh_int("ux")
                I.assume(z3.Or(z3.And(c >= 48, c <= 57), z3.And(c >= 97, c <= 102)))
                chars.append(c)
        I.uuids.append(chars)
        text = P.from_chars(chars)
    else:
        text = I.fresh("uuid", z3.StringSort())
        I.assume(z3.Length(text) == 36)
        I.uuids.append(text)
    return new_env_object(I, UUID_ENV, text=V.VStr(text))


def to_str_hook_uuid(I, v):
    return None


def install_standard(ctx: Context):
    ctx.extern_handlers.update({
        "re.match": x_re_match,
        "time.time": x_time_time,
        "uuid.uuid4": x_uuid4,
        "anyio.fail_after": x_fail_after,
        "anyio.move_on_after": x_move_on_after,
        "anyio.CancelScope": x_cancel_scope,
    })
    for e in (CANCEL_SCOPE, READ_STREAM, WRITE_STREAM, CALLBACK, SYNC_CALLBACK, UUID_ENV):
        ctx.env_class(e)
