"""CLI: ./vcheck check C13 [--tier quick|thorough] | ./vcheck replay <file> | ./vcheck list"""
import argparse
import importlib
import json
import os
import sys

VERIF = os.path.dirname(os.path.dirname(os.path.abspath(__file__)))
sys.path.insert(0, VERIF)


def load_check(prop):
    mod = importlib.import_module(f"checks.{prop}")
    return mod.CHECK


def main(argv=None):
    ap = argparse.ArgumentParser(prog="vcheck")
    sub = ap.add_subparsers(dest="cmd", required=True)
    c = sub.add_parser("check")
    c.add_argument("prop")
    c.add_argument("--tier", default=os.environ.get("VERIF_TIER", "quick"), choices=["quick", "thorough"])
    r = sub.add_parser("replay")
    r.add_argument("path")
    sub.add_parser("list")
    a = ap.parse_args(argv)
    repo = os.environ.get("VERIF_REPO", "/repo")
    src = os.path.join(repo, "src")
    if src not in sys.path:
        sys.path.insert(0, src)          # native replays import the tree under verification
    if a.cmd == "check":
        from pyvc.check import run_check
        seed = int(os.environ.get("VERIF_SEED", "0") or 0)
        try:
            chk = load_check(a.prop)
        except ModuleNotFoundError as ex:
            print(f"CHECKER-ERROR property={a.prop} no such check: {ex}")
            return 3
        return run_check(chk, a.tier, seed)
    if a.cmd == "replay":
        d = json.load(open(a.path))
        chk = load_check(d["property"])
        from pyvc.check import _replay_or_search
        ob = d["obligation"]
        if ".bounded_native_audit." in ob:
            rep = dict(reproduced=False)
            for a in chk.audits("quick"):
                ar = a()
                if not ar.ok and ar.violation:
                    rep = dict(reproduced=True, **ar.violation)
                    break
        elif ".bounded_stand_in." in ob:
            # a violation found by a bounded native stand-in: run the stand-in again on the current tree
            rs = [r for r in chk.bounded_stand_in("quick", ["*"]) if r.get("reproduced")] if hasattr(chk, "bounded_stand_in") else []
            if not rs:
                from checks import native
                rs = [r for r in (native.search_for(p, "quick") for p in native.STAND_INS) if r and r.get("reproduced")
                      and ob.endswith(r.get("search", "?"))]
            rep = rs[0] if rs else dict(reproduced=False)
        else:
            rep = _replay_or_search(chk, ob, d.get("counter_model") or {}, None, "quick")
        print(json.dumps(rep, indent=1, default=str))
        return 1 if rep and rep.get("reproduced") else 0
    if a.cmd == "list":
        for f in sorted(os.listdir(os.path.join(VERIF, "checks"))):
            if f.startswith("C") and f.endswith(".py"):
                print(f[:-3])
        return 0


if __name__ == "__main__":
    sys.exit(main())
