"""Reads the real source under <repo>/src/chuk_mcp on every run and builds the static tables
the interpreter resolves names through.  Nothing is cached across runs."""
from __future__ import annotations

import ast
import hashlib
import os
from dataclasses import dataclass, field
from typing import Any, Dict, List, Optional

REPO = os.environ.get("VERIF_REPO", "/repo")
PKG = "chuk_mcp"


class Unsupported(Exception):
    """Construct outside the interpreted subset: the affected obligations are UNDECIDED."""

    def __init__(self, reason, node=None):
        self.reason = reason
        self.node = node
        loc = f" (line {getattr(node, 'lineno', '?')})" if node is not None else ""
        super().__init__(f"{reason}{loc}")


@dataclass
class FuncInfo:
    name: str
    qualname: str
    module: "ModuleInfo"
    node: ast.AST
    cls: Optional["ClassInfo"] = None
    decorators: List[str] = field(default_factory=list)

    @property
    def is_async(self):
        return isinstance(self.node, ast.AsyncFunctionDef)

    @property
    def key(self):
        return f"{self.module.relpath}::{self.qualname}"

    def span(self):
        return (self.node.lineno, self.node.end_lineno)

    def source_hash(self):
        seg = ast.get_source_segment(self.module.source, self.node) or ""
        return hashlib.sha256(seg.encode()).hexdigest()[:16]


@dataclass
class ClassInfo:
    name: str
    module: "ModuleInfo"
    node: ast.ClassDef
    bases: List[str]
    methods: Dict[str, FuncInfo] = field(default_factory=dict)
    annotations: Dict[str, ast.AST] = field(default_factory=dict)     # field -> annotation node
    class_attrs: Dict[str, ast.AST] = field(default_factory=dict)     # name -> value node
    decorators: List[str] = field(default_factory=list)

    @property
    def key(self):
        return f"{self.module.relpath}::{self.name}"


@dataclass
class ModuleInfo:
    name: str                    # dotted
    relpath: str                 # relative to repo root
    path: str
    source: str
    tree: ast.Module
    functions: Dict[str, FuncInfo] = field(default_factory=dict)
    classes: Dict[str, ClassInfo] = field(default_factory=dict)
    constants: Dict[str, ast.AST] = field(default_factory=dict)   # NAME -> value node (module-level simple assigns)
    imports: Dict[str, tuple] = field(default_factory=dict)       # local name -> (module, attr|None)


def _dec_name(d):
    if isinstance(d, ast.Call):
        d = d.func
    if isinstance(d, ast.Attribute):
        return d.attr
    if isinstance(d, ast.Name):
        return d.id
    return "?"


def _base_name(b):
    if isinstance(b, ast.Attribute):
        return b.attr
    if isinstance(b, ast.Name):
        return b.id
    if isinstance(b, ast.Subscript):
        return _base_name(b.value)
    return "?"


class Repo:
    """Module table for the package, loaded lazily from the current working tree."""

    def __init__(self, root: str = None):
        self.root = root or os.environ.get("VERIF_REPO", "/repo")
        self.src = os.path.join(self.root, "src")
        self.modules: Dict[str, ModuleInfo] = {}
        self.overrides: Dict[str, str] = {}      # relpath -> replacement source (in-memory canaries)

    # -- loading ---------------------------------------------------------------
    def module_path(self, dotted: str) -> Optional[str]:
        p = os.path.join(self.src, *dotted.split("."))
        if os.path.isfile(p + ".py"):
            return p + ".py"
        if os.path.isdir(p) and os.path.isfile(os.path.join(p, "__init__.py")):
            return os.path.join(p, "__init__.py")
        return None

    def load(self, dotted: str) -> Optional[ModuleInfo]:
        if dotted in self.modules:
            return self.modules[dotted]
        path = self.module_path(dotted)
        if path is None:
            return None
        rel = os.path.relpath(path, self.root)
        if rel in self.overrides:
            source = self.overrides[rel]
        else:
            with open(path, encoding="utf-8") as f:
                source = f.read()
        tree = ast.parse(source, filename=path)
        mi = ModuleInfo(dotted, rel, path, source, tree)
        self.modules[dotted] = mi
        self._index(mi, tree.body)
        return mi

    def load_path(self, relpath: str) -> ModuleInfo:
        rel = relpath
        if rel.startswith("src/"):
            rel = rel[4:]
        dotted = rel[:-3].replace("/", ".")
        if dotted.endswith(".__init__"):
            dotted = dotted[: -len(".__init__")]
        mi = self.load(dotted)
        if mi is None:
            raise Unsupported(f"module file not found: {relpath}")
        return mi

    def _resolve_rel(self, mi: ModuleInfo, node: ast.ImportFrom) -> str:
        if node.level == 0:
            return node.module or ""
        parts = mi.name.split(".")
        is_pkg = mi.path.endswith("__init__.py")
        base = parts if is_pkg else parts[:-1]
        if node.level > 1:
            base = base[: len(base) - (node.level - 1)]
        return ".".join(base + ([node.module] if node.module else []))

    def _index(self, mi: ModuleInfo, body, in_branch=False, no_overwrite=False):
        for node in body:
            if isinstance(node, (ast.FunctionDef, ast.AsyncFunctionDef)):
                if node.name not in mi.functions or not no_overwrite:
                    mi.functions[node.name] = FuncInfo(
                        node.name, node.name, mi, node, None,
                        [_dec_name(d) for d in node.decorator_list])
            elif isinstance(node, ast.ClassDef):
                ci = ClassInfo(node.name, mi, node, [_base_name(b) for b in node.bases],
                               decorators=[_dec_name(d) for d in node.decorator_list])
                for sub in node.body:
                    if isinstance(sub, (ast.FunctionDef, ast.AsyncFunctionDef)):
                        ci.methods[sub.name] = FuncInfo(
                            sub.name, f"{node.name}.{sub.name}", mi, sub, ci,
                            [_dec_name(d) for d in sub.decorator_list])
                    elif isinstance(sub, ast.AnnAssign) and isinstance(sub.target, ast.Name):
                        ci.annotations[sub.target.id] = sub.annotation
                        if sub.value is not None:
                            ci.class_attrs[sub.target.id] = sub.value
                    elif isinstance(sub, ast.Assign):
                        for t in sub.targets:
                            if isinstance(t, ast.Name):
                                ci.class_attrs[t.id] = sub.value
                # the later definition wins at import time (json_rpc_message defines JSONRPCMessage twice);
                # the else-half of a module-level if (the no-pydantic fallback) never overrides the first half
                if node.name not in mi.classes or not no_overwrite:
                    mi.classes[node.name] = ci
            elif isinstance(node, ast.Assign):
                for t in node.targets:
                    if isinstance(t, ast.Name):
                        if no_overwrite and (t.id in mi.constants or t.id in mi.imports or t.id in mi.classes
                                             or t.id in mi.functions):
                            continue        # fallback definition in an except/else half: the first one wins
                        mi.constants[t.id] = node.value
                    elif isinstance(t, ast.Tuple):
                        pass
            elif isinstance(node, ast.AnnAssign) and isinstance(node.target, ast.Name) and node.value is not None:
                mi.constants[node.target.id] = node.value
            elif isinstance(node, ast.ImportFrom):
                mod = self._resolve_rel(mi, node)
                for a in node.names:
                    mi.imports[a.asname or a.name] = (mod, a.name)
            elif isinstance(node, ast.Import):
                for a in node.names:
                    if a.asname:
                        mi.imports[a.asname] = (a.name, None)
                    else:
                        mi.imports[a.name.split(".")[0]] = (a.name.split(".")[0], None)
            elif isinstance(node, ast.If):
                # module-level if/else (e.g. the pydantic / fallback halves): the first branch that
                # defines a name wins unless told otherwise; both are indexed.
                self._index(mi, node.body, in_branch=True, no_overwrite=no_overwrite)
                self._index(mi, node.orelse, in_branch=True, no_overwrite=True)
            elif isinstance(node, ast.Try):
                self._index(mi, node.body, in_branch=True, no_overwrite=no_overwrite)
                for h in node.handlers:
                    self._index(mi, h.body, in_branch=True, no_overwrite=True)

    # -- lookups ----------------------------------------------------------------
    def function(self, key: str) -> FuncInfo:
        """key = 'src/chuk_mcp/x/y.py::qual.name'"""
        rel, qn = key.split("::")
        mi = self.load_path(rel)
        if "." in qn:
            cn, mn = qn.split(".", 1)
            ci = mi.classes.get(cn)
            if ci is None or mn not in ci.methods:
                raise Unsupported(f"function under contract no longer exists: {key}")
            return ci.methods[mn]
        if qn not in mi.functions:
            raise Unsupported(f"function under contract no longer exists: {key}")
        return mi.functions[qn]

    def klass(self, key: str) -> ClassInfo:
        rel, cn = key.split("::")
        mi = self.load_path(rel)
        if cn not in mi.classes:
            raise Unsupported(f"class no longer exists: {key}")
        return mi.classes[cn]

    def resolve_import(self, mi: ModuleInfo, name: str, depth=0):
        """Follow `from x import name` chains inside the package.
        Returns ('func', FuncInfo) | ('class', ClassInfo) | ('const', (ModuleInfo, node)) |
                ('module', dotted) | ('extern', 'mod.attr') | None"""
        if depth > 8:
            return None
        if name in mi.functions:
            return ("func", mi.functions[name])
        if name in mi.classes:
            return ("class", mi.classes[name])
        if name in mi.constants:
            return ("const", (mi, mi.constants[name]))
        if name in mi.imports:
            mod, attr = mi.imports[name]
            if attr is None:
                if mod.startswith(PKG):
                    return ("module", mod)
                return ("extern", mod)
            if mod.startswith(PKG):
                # `from pkg.sub import name` may import a submodule
                sub = self.load(f"{mod}.{attr}")
                target = self.load(mod)
                if target is not None:
                    r = self.resolve_import(target, attr, depth + 1)
                    if r is not None:
                        return r
                if sub is not None:
                    return ("module", f"{mod}.{attr}")
                return None
            return ("extern", f"{mod}.{attr}")
        return None

    def mro(self, ci: ClassInfo) -> List[ClassInfo]:
        """Linearised repo-side ancestors (single inheritance chains are all the package uses)."""
        out, seen = [], set()
        work = [ci]
        while work:
            c = work.pop(0)
            if c.key in seen:
                continue
            seen.add(c.key)
            out.append(c)
            for b in c.bases:
                r = self.resolve_import(c.module, b)
                if r and r[0] == "class":
                    work.append(r[1])
        return out

    def base_names(self, ci: ClassInfo) -> List[str]:
        """All ancestor names, including external ones (Exception, McpPydanticBase, ...)."""
        names = []
        for c in self.mro(ci):
            names.append(c.name)
            for b in c.bases:
                if b not in names:
                    names.append(b)
        return names

    def find_method(self, ci: ClassInfo, name: str) -> Optional[FuncInfo]:
        for c in self.mro(ci):
            if name in c.methods:
                return c.methods[name]
        return None

    def all_package_files(self) -> List[str]:
        out = []
        for d, _, files in os.walk(os.path.join(self.src, PKG)):
            for f in files:
                if f.endswith(".py"):
                    out.append(os.path.relpath(os.path.join(d, f), self.root))
        return sorted(out)
