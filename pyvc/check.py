"""Property checks: obligations + lemmas + canaries + audits + replay + evidence.

Exit codes: 0 held / 1 violation (VIOLATION line) / 2 undecided / 3 checker error.
"""
from __future__ import annotations

import hashlib
import json
import os
import re
import sys
import time
import traceback
from dataclasses import dataclass, field
from typing import Any, Callable, Dict, List, Optional, Tuple

import z3

from . import vals as V
from .core import Context, Obligation
from .loader import Repo, Unsupported
from .verify import Contract, FunctionResult, explore, discharge

VERIF = os.path.dirname(os.path.dirname(os.path.abspath(__file__)))

GLOBAL_TRUSTED = [
    "pyvc itself: the symbolic semantics of the interpreted Python subset and of the prelude built-ins "
    "(kept honest by canary mutants and native replays), CPython's ast parser",
    "z3 5.1.0 (every obligation), cvc5 where used",
    "Python int as mathematical integer (exact); float as mathematical real (assumption)",
    "mutable containers (dict/list) are values written back to the place they were read from: no aliasing of "
    "containers other than through heap objects",
    "logging / print calls do not raise and have no effect (their arguments are evaluated)",
    "class instances are truthy (no __bool__/__len__ on the classes met)",
]

DROPPED_ALWAYS = [
    "docstrings", "type annotations (read for shapes, not executed)",
    "decorators other than asynccontextmanager/staticmethod/classmethod/property/dataclass",
]


@dataclass
class Canary:
    """An in-memory rewrite of the current source that must make a named obligation fail."""
    name: str
    relpath: str
    old: str
    new: str
    expect: str = ""               # substring of the obligation name expected to fail
    count: int = 1                  # how many occurrences of `old` to replace (0 = all)
    only: Optional[List[str]] = None     # contract keys to re-verify (default: those in the rewritten file)
    also: Optional[List[str]] = None     # additional contract keys to re-verify
    all_contracts: bool = False


@dataclass
class Lemma:
    name: str
    build: Callable[[], Tuple[List[Any], Any]]      # () -> (assumptions, goal)
    watch: Dict[str, Any] = field(default_factory=dict)


@dataclass
class AuditResult:
    name: str
    ok: bool
    cases: int
    detail: str = ""
    bound: str = ""
    # set when the audit ran the REAL code of the tree under verification and found a concrete input on which the property
    # itself fails (dict(input=, observed=, required=)): reported as a violation with a replayed input, not as a checker error
    violation: Optional[dict] = None
    # failing inputs that belong to a class the audit knows how to name: each is a KNOWN-FINDING if that class is listed in
    # KNOWN_FINDINGS.txt for this property, a violation otherwise   [dict(cls=, input=, observed=, required=)]
    classified: Optional[List[dict]] = None


class Check:
    tier = "quick"
    prop = ""
    level = "proof"
    title = ""
    design_ref = ""
    trusted: List[str] = []
    assumptions: List[str] = []

    def contracts(self) -> List[Contract]:
        return []

    def modular(self) -> Dict[str, Contract]:
        return {}

    def loop_invariants(self) -> Dict[Tuple[str, int], Callable]:
        return {}

    def lemmas(self) -> List[Lemma]:
        return []

    def canaries(self) -> List[Canary]:
        return []

    def audits(self, tier) -> List[Callable[[], AuditResult]]:
        return []

    def install(self, ctx: Context):
        """Hook: register environment contracts / extern handlers on the context."""
        pass

    def replay(self, name: str, model: dict, ob: Obligation) -> Optional[dict]:
        """Run the real code on the counterexample. Return dict(reproduced=bool, input=..., observed=..., required=...)
        or None when no concrete input can be built."""
        return None

    def bounded_stand_in(self, tier, undecided: List[str]) -> List[dict]:
        """Called only when some function left the interpreted subset (obligations undecided).  A bounded native
        check of the real function with a stated bound; a failing input it finds is a violation with a replayed
        input (a real failing run), a pass is reported as bounded and never counted as proved.
        Returns [dict(name=..., reproduced=bool, input=..., observed=..., required=..., bound=...)]."""
        return []

    def static_checks(self, repo: Repo) -> List[Tuple[str, bool, str]]:
        """Extra decided facts outside the interpreter (e.g. class-table invariants): (name, ok, detail)."""
        return []


# --------------------------------------------------------------------------- known findings
def load_known_findings(prop: str):
    path = os.path.join(VERIF, "KNOWN_FINDINGS.txt")
    known, fixed = [], []
    if not os.path.exists(path):
        return known, fixed
    for line in open(path, encoding="utf-8"):
        line = line.strip()
        if not line or line.startswith("#"):
            continue
        if line.startswith("known:"):
            m = re.match(r"known:\s+property=(\S+)\s+obligation=(\S+)\s+class=(\S+)\s+--\s+(.*)", line)
            if m and m.group(1) == prop:
                known.append(dict(obligation=m.group(2), cls=m.group(3), text=m.group(4)))
        elif line.startswith("fixed:"):
            m = re.match(r"fixed:\s+property=(\S+)\s+(\S+)\s+(.*)", line)
            if m and m.group(1) == prop:
                fixed.append(dict(commit=m.group(2), text=m.group(3)))
    return known, fixed


# --------------------------------------------------------------------------- running
def make_context(check: Check, repo: Repo = None) -> Context:
    ctx = Context(repo or Repo())
    invs = check.loop_invariants()
    ctx.contracts_loop = lambda fkey, ordinal: invs.get((fkey, ordinal))
    ctx.contracts = dict(check.modular())
    check.install(ctx)
    return ctx


# ---- path-task scheduler: one pool of forked workers explores decision subtrees of all contracts ----
_JOB_CHECK = None
_JOB_KNOWN = None
_JOB_TIMEOUT = 30000
_JOB_ROOT = "/repo"
_JOB_CANARIES = []
_REPO_CACHE: Dict[Any, Any] = {}


@dataclass
class VerdictRec:
    name: str
    verdict: str
    seconds: float
    model: Optional[dict]
    why: str
    func: str
    line: int
    trace: Tuple
    known_explained: bool = False
    meta: dict = field(default_factory=dict)


def _repo_for(ci):
    if ci not in _REPO_CACHE:
        if ci is None:
            _REPO_CACHE[ci] = Repo(_JOB_ROOT)
        else:
            _REPO_CACHE[ci] = apply_canary(_JOB_ROOT, _JOB_CANARIES[ci])
    r = _REPO_CACHE[ci]
    return r


def _recs_of(verdicts):
    recs = []
    for ob, v, sec, m, why in verdicts:
        if v not in ("sat", "unsat") and os.environ.get("PYVC_DEBUG"):
            with open("/tmp/pyvc_unknown.log", "a") as f:
                f.write(f"=== {ob.name} {v} {why} trace={ob.trace[-6:]}\n")
                for c in ob.pc:
                    f.write("   PC " + str(c)[:400].replace("\n", " ") + "\n")
                f.write("   GOAL " + str(ob.goal)[:600].replace("\n", " ") + "\n")
        explained = False
        if v == "sat" and _JOB_KNOWN:
            ks = [k for k in _JOB_KNOWN if k["obligation"] == ob.name]
            if ks:
                explained = _explained_by_known(ob, ks, _JOB_TIMEOUT)
        lite = {k: v2 for k, v2 in (ob.meta or {}).items() if isinstance(v2, (str, int, float, bool))}
        recs.append(VerdictRec(ob.name, v, sec, m, why, ob.func, ob.line, tuple(ob.trace), explained, lite))
    return recs


def _run_task(task):
    """task = dict(ci, ki, prefixes, loop_writes, budget)"""
    ci, ki = task["ci"], task["ki"]
    check = _JOB_CHECK
    from .verify import run_paths
    try:
        repo = _repo_for(ci)
        if repo is None:
            return dict(ci=ci, ki=ki, skipped=True)
        ctx = make_context(check, repo)
        if ki == "lemmas":
            obls = []
            for lem in check.lemmas():
                assumptions, goal = lem.build()
                obls.append(Obligation(lem.name, tuple(assumptions), goal, "<lemma>", 0, 0,
                                       {"watch": lem.watch, "lemma": True}))
            return dict(ci=ci, ki=ki, remaining=[], recs=_recs_of(discharge(obls, timeout_ms=_JOB_TIMEOUT, procs=1)),
                        outcomes={}, unsupported=[], errors=[], loop_writes={}, changed=False, paths=0,
                        dropped=[], stats={}, assumptions=[], meta=None)
        c = check.contracts()[ki]
        try:
            fi = ctx.repo.function(c.key)
        except Unsupported as u:
            return dict(ci=ci, ki=ki, remaining=[], recs=[], outcomes={}, unsupported=[str(u)], errors=[],
                        loop_writes={}, changed=False, paths=0, dropped=[], stats={}, assumptions=[], meta=None)
        ctx.loop_writes = {k: set(v) for k, v in task["loop_writes"].items()}
        ctx.loop_writes_changed = False
        remaining, obls, outcomes, unsupported, errors, done = run_paths(ctx, c, fi, task["prefixes"],
                                                                         task["budget"])
        if ci is None:
            verdicts = discharge(obls, timeout_ms=_JOB_TIMEOUT, procs=1)
        else:
            exp = _JOB_CANARIES[ci].expect
            obls = sorted(obls, key=lambda o: (exp not in o.name, o.name))
            verdicts = discharge(obls, timeout_ms=min(_JOB_TIMEOUT, 12000), procs=1, stop_at_sat=True)
        meta = dict(function=c.key, lines=list(fi.span()), source_sha=fi.source_hash(), file=fi.module.relpath)
        return dict(ci=ci, ki=ki, remaining=remaining, recs=_recs_of(verdicts), outcomes=outcomes,
                    unsupported=unsupported, errors=errors, loop_writes=ctx.loop_writes,
                    changed=ctx.loop_writes_changed, paths=done, dropped=sorted(ctx.dropped), stats=ctx.stats,
                    assumptions=sorted(ctx.assumptions), meta=meta)
    except Exception as ex:
        return dict(ci=ci, ki=ki, error=f"{type(ex).__name__}: {ex}", trace=traceback.format_exc()[-3000:])


def _replay_or_search(check, name, model, rec, tier):
    """replay of the counter-model on the real code; when that gives no failing input, the bounded native search
    registered for the obligation's property area (a failing input it finds is a real failing run)"""
    cand = check.replay(name, model, rec)
    if cand and cand.get("reproduced"):
        return cand
    try:
        from checks import native
        found = native.search_for(name, tier)
    except ImportError:
        found = None
    if found and found.get("reproduced"):
        found["how"] = "bounded native search of the real code (the counter-model itself was not concretised)"
        return found
    if cand is None and found is not None:
        return found
    return cand


def _explained_by_known(ob, ks, timeout_ms) -> bool:
    """The failing instance is a listed finding iff it is sat and becomes unsat once every listed class is
    excluded; a failure outside the listed classes is reported normally."""
    classes = (ob.meta or {}).get("classes") or {}
    listed = [classes[k["cls"]] for k in ks if k["cls"] in classes]
    if not listed:
        return False
    s = z3.Solver()
    s.set("timeout", timeout_ms)
    for c in ob.pc:
        s.add(c)
    s.add(z3.Not(ob.goal))
    s.add(z3.Not(z3.Or(listed)))
    return s.check() == z3.unsat


class _State:
    """Exploration state of one (canary, contract) pair in the parent."""

    def __init__(self, ci, ki):
        self.ci, self.ki = ci, ki
        self.loop_writes: Dict[Any, set] = {}
        self.queue: List[Tuple] = [()]
        self.inflight = 0
        self.round = 1
        self.dirty = False
        self.recs: List[VerdictRec] = []
        self.outcomes: Dict[str, int] = {}
        self.unsupported: List[str] = []
        self.errors: List[str] = []
        self.paths = 0
        self.dropped: set = set()
        self.assumptions: set = set()
        self.stats: Dict[str, int] = {}
        self.meta = None
        self.skipped = False
        self.stopped = False
        self.stopped_by_sat = False
        self.t0 = time.time()
        self.t1 = None
        self.first = True

    def reset_round(self):
        self.queue = [()]
        self.recs, self.outcomes, self.unsupported, self.paths = [], {}, [], 0
        self.dirty = False
        self.stopped_by_sat = False      # a hit found while the write set was still growing does not count
        self.round += 1
        self.first = True

    @property
    def done(self):
        return self.inflight == 0 and (not self.queue or self.stopped or self.stopped_by_sat)


def run_jobs(check: Check, jobs, repo_root, known, timeout_ms, canaries):
    """jobs: list of (ci, ki).  Returns {(ci, ki): _State}."""
    global _JOB_CHECK, _JOB_KNOWN, _JOB_TIMEOUT, _JOB_ROOT, _JOB_CANARIES
    _JOB_CHECK, _JOB_KNOWN, _JOB_TIMEOUT, _JOB_ROOT, _JOB_CANARIES = check, known, timeout_ms, repo_root, canaries
    _REPO_CACHE.clear()
    states = {j: _State(*j) for j in jobs}
    if not jobs:
        return states
    procs = max(1, int(os.environ.get("VERIF_PROCS", "16")))
    max_paths = int(os.environ.get("VERIF_MAX_PATHS", "6000"))

    def next_task(st: _State):
        if st.stopped or st.stopped_by_sat or not st.queue or st.dirty:
            return None
        n = 1 if st.first else min(len(st.queue), 3)
        st.first = False
        prefixes = [st.queue.pop() for _ in range(n)]
        return dict(ci=st.ci, ki=st.ki, prefixes=prefixes, loop_writes=st.loop_writes,
                    budget=2 if st.paths < 8 else 8)

    def absorb(st: _State, r):
        st.inflight -= 1
        if r.get("skipped"):
            st.skipped, st.stopped = True, True
            return
        if "error" in r:
            st.errors.append(f"{r['error']}\n{r.get('trace', '')}")
            st.stopped = True
            return
        st.meta = r.get("meta") or st.meta
        new_writes = False
        for k, v in r["loop_writes"].items():
            cur = st.loop_writes.setdefault(k, set())
            if not set(v) <= cur:
                cur |= set(v)
                new_writes = True
        if new_writes:
            st.dirty = True
        st.queue.extend(r["remaining"])
        st.recs.extend(r["recs"])
        for k, v in r["outcomes"].items():
            st.outcomes[k] = st.outcomes.get(k, 0) + v
        st.unsupported.extend(r["unsupported"])
        st.errors.extend(r["errors"])
        st.paths += r["paths"]
        st.dropped.update(r["dropped"])
        st.assumptions.update(r["assumptions"])
        for k, v in r["stats"].items():
            st.stats[k] = st.stats.get(k, 0) + v
        if st.paths > max_paths:
            st.unsupported.append(f"path budget exceeded ({max_paths})")
            st.stopped = True
        if st.ci is not None and not st.dirty and \
                any(x.verdict == "sat" and not x.known_explained for x in r["recs"]):
            st.stopped_by_sat = True              # a canary only needs one failing obligation
        if st.dirty and st.inflight == 0:
            if st.round >= 8:
                st.unsupported.append("loop write-set inference did not converge")
                st.stopped = True
            else:
                st.reset_round()

    if procs == 1:
        for st in states.values():
            while not st.done:
                t = next_task(st)
                if t is None:
                    break
                st.inflight += 1
                absorb(st, _run_task(t))
            st.t1 = time.time()
        return states
    from concurrent.futures import ProcessPoolExecutor, wait, FIRST_COMPLETED
    import multiprocessing as mp
    with ProcessPoolExecutor(max_workers=procs, mp_context=mp.get_context("fork")) as ex:
        futs = {}
        base_states = [st for st in states.values() if st.ci is None]
        canary_states = [st for st in states.values() if st.ci is not None]
        while True:
            # the base obligations (the verdict) run first and alone; canaries (a self-test) only afterwards, so that
            # solver budgets of the verdict are not squeezed by sixteen busy cores
            order = base_states if not all(st.done for st in base_states) else canary_states
            progressed = True
            while len(futs) < procs + 2 and progressed:
                progressed = False
                for st in order:
                    if len(futs) >= procs + 2:
                        break
                    t = next_task(st)
                    if t is not None:
                        st.inflight += 1
                        futs[ex.submit(_run_task, t)] = st
                        progressed = True
            if not futs:
                break
            done, _ = wait(list(futs), return_when=FIRST_COMPLETED)
            for f in done:
                st = futs.pop(f)
                try:
                    r = f.result()
                except Exception as exn:
                    r = dict(ci=st.ci, ki=st.ki, error=f"worker died: {type(exn).__name__}: {exn}")
                absorb(st, r)
                if st.done and st.t1 is None:
                    st.t1 = time.time()
    for st in states.values():
        if st.t1 is None:
            st.t1 = time.time()
    return states


def summarise(recs: List[VerdictRec]):
    """name -> dict(instances, unsat, sat, unknown, seconds, models, recs)"""
    by = {}
    for r in recs:
        d = by.setdefault(r.name, dict(instances=0, unsat=0, sat=0, unknown=0, seconds=0.0, models=[], recs=[],
                                       why=[], func=r.func, line=r.line, explained=0))
        d["instances"] += 1
        v = r.verdict
        d[v if v in ("unsat", "sat") else "unknown"] += 1
        d["seconds"] += r.seconds
        if v == "sat":
            d["models"].append(r.model)
            d["recs"].append(r)
            if r.known_explained:
                d["explained"] += 1
        if v not in ("unsat", "sat"):
            d["why"].append(r.why)
            if r.model:
                d.setdefault("candidates", []).append((r.model, r))
    return by


def apply_canary(repo_root: str, c: Canary) -> Optional[Repo]:
    path = os.path.join(repo_root, c.relpath)
    if not os.path.exists(path):
        return None
    src = open(path, encoding="utf-8").read()
    if c.old not in src:
        return None
    new = src.replace(c.old, c.new) if c.count == 0 else src.replace(c.old, c.new, c.count)
    try:
        compile(new, path, "exec")
    except SyntaxError:
        return None
    r = Repo(repo_root)
    r.overrides[c.relpath] = new
    return r


def run_check(check: Check, tier: str = "quick", seed: int = 0) -> int:
    t0 = time.time()
    prop = check.prop
    check.tier = tier
    out_lines: List[str] = []
    exit_code = 0
    repo_root = os.environ.get("VERIF_REPO", "/repo")
    known, fixed = load_known_findings(prop)
    timeout_ms = 60000 if tier == "quick" else 180000
    errors: List[str] = []
    contracts = check.contracts()
    canaries = check.canaries()
    base_jobs = [(None, k) for k in range(len(contracts))] + ([(None, "lemmas")] if check.lemmas() else [])
    canary_jobs = []
    for ci, c in enumerate(canaries):
        for k, ct in enumerate(contracts):
            if c.only is not None:
                if ct.key in c.only:
                    canary_jobs.append((ci, k))
            elif ct.key.split("::")[0] == c.relpath or ct.key in (c.also or ()) or c.all_contracts:
                canary_jobs.append((ci, k))
    try:
        states = run_jobs(check, base_jobs + canary_jobs, repo_root, known, timeout_ms, canaries)
    except Exception as ex:        # engine crash: never a violation
        print(f"CHECKER-ERROR property={prop} {type(ex).__name__}: {ex}")
        traceback.print_exc()
        write_evidence(check, tier, seed, t0, dict(explanation=f"checker error: {ex}", obligations=0, discharged=0,
                                                   checker_cmd=f"./vcheck check {prop} --tier {tier}",
                                                   trusted_base=GLOBAL_TRUSTED, samples=[]), violations=0)
        return 3
    fresults: List[FunctionResult] = []
    frs_by_idx: Dict[Any, FunctionResult] = {}
    recs: List[VerdictRec] = []
    dropped, stats, ctx_assumptions = set(), {}, set()
    undecided: List[str] = []
    for (ci, ki), st in states.items():
        if ci is not None:
            continue
        for e in st.errors:
            errors.append(f"engine error in {ki}: {e}")
        recs.extend(st.recs)
        dropped.update(st.dropped)
        ctx_assumptions.update(st.assumptions)
        for k, v in st.stats.items():
            stats[k] = stats.get(k, 0) + v
        if ki != "lemmas":
            m = st.meta or {}
            fr = FunctionResult(contracts[ki].key, [], st.paths, st.round, list(dict.fromkeys(st.unsupported)),
                                st.outcomes, (st.t1 or time.time()) - st.t0, tuple(m.get("lines", (0, 0))),
                                m.get("source_sha", ""), m.get("file", ""), [])
            fresults.append(fr)
            frs_by_idx[ki] = fr
    by = summarise(recs)
    violations: List[dict] = []
    known_hits: List[str] = []
    for fr in fresults:
        for u in fr.unsupported:
            undecided.append(f"{fr.key}: {u}")
        for e in fr.errors:
            errors.append(e)
    # static checks (decided outside the interpreter, still from the current source)
    static = []
    try:
        static = check.static_checks(Repo(repo_root))
    except Unsupported as u:
        undecided.append(f"static: {u}")
    for name, ok, detail in static:
        by[name] = dict(instances=1, unsat=1 if ok else 0, sat=0 if ok else 1, unknown=0, seconds=0.0,
                        models=[{"detail": detail}] if not ok else [], recs=[None] if not ok else [], why=[],
                        func="<static>", line=0, static=True, explained=0)
    # vacuity (A1)
    if len(by) == 0:
        errors.append("vacuous: no obligations were generated")
    for k, c in enumerate(contracts):
        fr = frs_by_idx.get(k)
        if fr is None or fr.unsupported:
            continue
        for cov in c.covers:
            if not any(o == cov or o.startswith(cov) for o in fr.outcomes):
                errors.append(f"vacuity: outcome '{cov}' of {fr.key} [{type(c).__name__}] is not reachable under the "
                              f"contract (reached: {sorted(fr.outcomes)})")
    # failed obligations -> known finding or violation
    rdir = os.path.join(VERIF, "replays", prop)
    os.makedirs(rdir, exist_ok=True)
    for f in os.listdir(rdir):                       # replay files describe THIS run only
        if f.endswith(".json"):
            os.remove(os.path.join(rdir, f))
    for name, d in sorted(by.items()):
        if d["unknown"] and not d["sat"]:
            # inconclusive on the full path condition; a counter-model of the quantifier-free part is only a
            # candidate: it becomes a violation iff it replays on the real code
            confirmed = None
            for m2, r2 in d.get("candidates", [])[:6]:
                try:
                    cand = _replay_or_search(check, name, m2 or {}, r2, tier)
                except Exception:
                    cand = None
                if cand and cand.get("reproduced"):
                    confirmed = (cand, m2, r2)
                    break
            if confirmed is None:
                undecided.append(f"{name}: solver returned unknown ({'; '.join(sorted(set(d['why'])))})")
                continue
            d["sat"] = 1
            d["models"], d["recs"] = [confirmed[1]], [confirmed[2]]
        if not d["sat"]:
            continue
        ks = [k for k in known if k["obligation"] == name]
        if ks and d["explained"] == d["sat"]:
            d["known"] = True
            for k in ks:
                known_hits.append(f"KNOWN-FINDING: property={prop} {k['text']} [obligation {name}, class {k['cls']}]")
            continue
        # genuine failed obligation: replay the counter-model on the real code
        pairs = [(m, r) for m, r in zip(d["models"], d["recs"]) if not (r is not None and r.known_explained)]
        rep, model, rec = None, (pairs[0][0] or {}), pairs[0][1]
        for m2, r2 in pairs[:6]:
            try:
                cand = _replay_or_search(check, name, m2 or {}, r2, tier)
            except Exception as ex:
                cand = dict(reproduced=False, error=f"{type(ex).__name__}: {ex}", trace=traceback.format_exc()[-1500:])
            if rep is None:
                rep, model, rec = cand, (m2 or {}), r2
            if cand and cand.get("reproduced"):
                rep, model, rec = cand, (m2 or {}), r2
                break
        fn = re.sub(r"[^A-Za-z0-9_.\[\]-]", "_", name)[:150] + ".json"
        rpath = os.path.join(VERIF, "replays", prop, fn)
        payload = dict(property=prop, obligation=name, function=d["func"], line=d["line"],
                       verdict="sat (negated obligation satisfiable)", counter_model=model,
                       path_trace=list(rec.trace) if rec is not None else [], replay=rep,
                       instances_failed=d["sat"], instances=d["instances"])
        with open(rpath, "w") as f:
            json.dump(payload, f, indent=1, default=str)
        suffix = "" if (rep and rep.get("reproduced")) else " no-failing-input-found"
        out_lines.append(f"VIOLATION property={prop} replay={rpath} obligation={name}{suffix}")
        violations.append(dict(obligation=name, replay=rpath, reproduced=bool(rep and rep.get("reproduced"))))
    # bounded stand-in for functions that left the interpreted subset
    stand_in_report = []
    # thorough tier: the bounded native searches of every function under contract run as well (deeper grids), in addition
    # to the proof - a failing input is a violation with a replayed input, a pass is recorded as bounded and changes nothing
    forced = []
    if tier == "thorough":
        try:
            forced = [f"{c.key} (thorough tier: bounded native search in addition to the proof)" for c in check.contracts()]
        except Exception:      # noqa: BLE001
            forced = []
    if undecided or forced:
        try:
            for r in check.bounded_stand_in(tier, list(undecided) + forced):
                stand_in_report.append({k: (v if isinstance(v, (str, int, float, bool, type(None))) else repr(v)[:300])
                                        for k, v in r.items()})
                if r.get("reproduced"):
                    nm = f"{prop}.bounded_stand_in.{r.get('name', 'native')}"
                    fn = re.sub(r"[^A-Za-z0-9_.\[\]-]", "_", nm)[:150] + ".json"
                    rpath = os.path.join(VERIF, "replays", prop, fn)
                    with open(rpath, "w") as f:
                        json.dump(dict(property=prop, obligation=nm, verdict="bounded native check of the real function found a "
                                       "failing input (the function is outside the interpreted subset)", replay=r,
                                       counter_model={}), f, indent=1, default=str)
                    out_lines.append(f"VIOLATION property={prop} replay={rpath} obligation={nm}")
                    violations.append(dict(obligation=nm, replay=rpath, reproduced=True))
        except Exception as ex:
            errors.append(f"bounded stand-in crashed: {type(ex).__name__}: {ex}")
    # functions that left the interpreted subset (or whose proof script no longer matches the code) and are decided by a
    # passing bounded native stand-in: labelled bounded, never counted as proved
    bounded_decided = []
    if undecided and not violations:
        covers = [c for r in stand_in_report if not r.get("reproduced") for c in (r.get("covers") or "").split("|") if c]
        bounded_decided = [u for u in undecided if "solver returned unknown" not in u and any(c in u for c in covers)]
        undecided = [u for u in undecided if u not in bounded_decided]
    # canaries (A3): each rewrite of the current source must make an obligation fail
    canary_report = []
    for ci, c in enumerate(canaries):
        sts = [st for (cj, _k), st in states.items() if cj == ci]
        if (sts and all(st.skipped for st in sts)) or (not sts and apply_canary(repo_root, c) is None):
            canary_report.append(dict(name=c.name, status="skipped (anchor not found in current source)"))
            continue
        errs = [e for st in sts for e in st.errors]
        failed = []
        for st in sts:
            for rec in st.recs:
                if rec.verdict == "sat" and not rec.known_explained:
                    failed.append(rec.name)
        try:
            crepo = apply_canary(repo_root, c)
            if crepo is not None:
                for n, ok, _d in check.static_checks(crepo):
                    if not ok:
                        failed.append(n)
        except Unsupported:
            pass
        if os.environ.get("PYVC_DEBUG"):
            for st in sts:
                cnt = {}
                for rec in st.recs:
                    cnt[(rec.name.split(".")[-1], rec.verdict)] = cnt.get((rec.name.split(".")[-1], rec.verdict), 0) + 1
                print(f"[canary {c.name}] state {st.ki} paths={st.paths} round={st.round} stopped={st.stopped} "
                      f"queue={len(st.queue)} unsupported={st.unsupported[:2]} recs={cnt}", flush=True)
        hit = sorted({n for n in failed if c.expect in n})
        if hit:
            canary_report.append(dict(name=c.name, status="killed", by=hit[:4]))
        elif failed:
            canary_report.append(dict(name=c.name, status="killed-by-other", by=sorted(set(failed))[:4]))
        elif errs:
            canary_report.append(dict(name=c.name, status=f"error: {errs[0][:300]}"))
            errors.append(f"canary '{c.name}' crashed the engine: {errs[0][:600]}")
        else:
            unknowns = sorted({rec.name for st in sts for rec in st.recs if rec.verdict not in ("sat", "unsat")})
            uns = [u for st in sts for u in st.unsupported]
            if unknowns:
                canary_report.append(dict(name=c.name, status="not-proved (solver inconclusive; the real check would "
                                                              "report UNDECIDED unless a candidate replays)",
                                          by=unknowns[:4]))
            elif uns:
                canary_report.append(dict(name=c.name, status=f"undecided: {uns[0]}"))
                if not violations:
                    errors.append(f"canary '{c.name}' left the supported subset instead of failing: {uns[0]}")
            else:
                canary_report.append(dict(name=c.name, status="SURVIVED"))
                if not violations:
                    errors.append(f"canary '{c.name}' survived: the check would not notice this change")
    # audits (bounded, never counted as proved)
    audit_report = []
    for a in check.audits(tier):
        try:
            ar = a()
            audit_report.append(dict(name=ar.name, ok=ar.ok, cases=ar.cases, bound=ar.bound, detail=ar.detail[:500]))
            for cf in (ar.classified or []):
                listed = [k for k in known if k["cls"] == cf.get("cls")]
                if listed:
                    for k in listed:
                        line = f"KNOWN-FINDING: property={prop} {k['text']} [bounded native audit {ar.name}, class {k['cls']}]"
                        if line not in known_hits:
                            known_hits.append(line)
                elif not ar.violation:
                    ar.ok = False
                    ar.violation = dict(input=cf.get("input"), observed=cf.get("observed"), required=cf.get("required"))
            if not ar.ok and ar.violation:
                nm = f"{prop}.bounded_native_audit.{re.sub(r'[^A-Za-z0-9_]+', '_', ar.name)}"
                rpath = os.path.join(VERIF, "replays", prop, nm[:150] + ".json")
                os.makedirs(os.path.dirname(rpath), exist_ok=True)
                with open(rpath, "w") as f:
                    json.dump(dict(property=prop, obligation=nm, verdict="bounded native audit of the real code found a failing input",
                                   replay=dict(reproduced=True, **ar.violation), counter_model={}), f, indent=1, default=str)
                violations.append(dict(obligation=nm, replay=rpath, reproduced=True))
                out_lines.append(f"VIOLATION property={prop} replay={rpath} obligation={nm}")
            elif not ar.ok:
                errors.append(f"audit '{ar.name}' failed: {ar.detail[:300]}")
        except Exception as ex:
            audit_report.append(dict(name=getattr(a, "__name__", "audit"), ok=False, cases=0,
                                     detail=f"{type(ex).__name__}: {ex}"))
            errors.append(f"audit crashed: {type(ex).__name__}: {ex}")
    # verdict
    discharged = sum(1 for d in by.values() if d["sat"] == 0 and d["unknown"] == 0)
    for l in known_hits:
        print(l)
    if violations:
        exit_code = 1
        for l in out_lines:
            print(l)
    elif errors and not ((undecided or bounded_decided) and all(e.startswith("canary ") for e in errors)):
        exit_code = 3
        for e in errors:
            print(f"CHECKER-ERROR property={prop} {e}")
    elif undecided:
        exit_code = 2
        for u in undecided:
            print(f"UNDECIDED property={prop} {u}")
    for u in bounded_decided:
        print(f"BOUNDED property={prop} not proved, decided by the bounded native stand-in only: {u}")
    samples = []
    for name, d in sorted(by.items())[:12]:
        samples.append(dict(obligation=name, instances=d["instances"], verdict="discharged" if d["sat"] == 0 and
                            d["unknown"] == 0 else ("known-finding" if d.get("known") else
                                                    ("failed" if d["sat"] else "undecided")),
                            solver_s=round(d["seconds"], 3), at=f"{d['func']}:{d['line']}"))
    n_known = sum(1 for d in by.values() if d.get("known"))
    cov = dict(
        obligations=len(by) - n_known,
        discharged=discharged,
        obligations_failing_as_listed_known_findings=n_known,
        obligation_instances=sum(d["instances"] for d in by.values()),
        checker_cmd=f"./vcheck check {prop} --tier {tier}  (z3 {z3.get_version_string()} via the pyvc VC generator "
                    f"over the AST of {repo_root}/src)",
        trusted_base=GLOBAL_TRUSTED + list(check.trusted) + sorted(ctx_assumptions),
        back_end="z3 " + z3.get_version_string(),
        solver_time_s=round(sum(d["seconds"] for d in by.values()), 3),
        functions_under_contract=[dict(function=fr.key, lines=list(fr.span), source_sha=fr.source_hash,
                                       paths=fr.paths, rounds=fr.rounds, outcomes=fr.outcomes,
                                       explore_s=round(fr.wall_s, 2)) for fr in fresults],
        all_obligations=[dict(name=n, instances=d["instances"], unsat=d["unsat"], sat=d["sat"],
                              unknown=d["unknown"], s=round(d["seconds"], 3)) for n, d in sorted(by.items())],
        known_findings_matched=known_hits,
        fixed_entries=[f"{f['commit']} {f['text']}" for f in fixed],
        undecided=undecided,
        decided_by_bounded_stand_in_only=bounded_decided,
        checker_errors=errors,
        canaries=canary_report,
        audits_bounded=audit_report,
        bounded_stand_ins=stand_in_report,
        interpretation_drops=DROPPED_ALWAYS + sorted(dropped),
        engine_stats=stats,
        samples=samples,
        explanation=check.title,
    )
    write_evidence(check, tier, seed, t0, cov, violations=len(violations), downgraded=bool(bounded_decided))
    status = {0: "HELD", 1: "VIOLATION", 2: "UNDECIDED", 3: "CHECKER-ERROR"}[exit_code]
    if exit_code == 0 and bounded_decided:
        status = f"HELD (of which {len(bounded_decided)} function(s) by bounded stand-in only, not proved)"
    print(f"[{prop}] {status}: {discharged}/{len(by)} obligations discharged "
          f"({sum(d['instances'] for d in by.values())} instances, "
          f"{sum(fr.paths for fr in fresults)} paths), canaries "
          f"{sum(1 for c in canary_report if c['status'].startswith('killed'))}/{len(canary_report)} killed, "
          f"{len(known_hits)} known finding(s), {time.time() - t0:.1f}s")
    return exit_code


def write_evidence(check: Check, tier, seed, t0, coverage, violations=0, downgraded=False):
    # evidence/ always describes /repo itself; runs against another tree (VERIF_REPO=...) go to evidence_alt/
    edir = "evidence" if os.environ.get("VERIF_REPO", "/repo") == "/repo" else "evidence_alt"
    os.makedirs(os.path.join(VERIF, edir), exist_ok=True)
    # a run in which some function was decided by a bounded stand-in only is not a proof-level run
    ev = dict(property_id=check.prop, tier=tier, seed=int(seed), level=("other" if downgraded else check.level), coverage=coverage,
              assumptions=list(check.assumptions) + list(check.trusted), wall_s=round(time.time() - t0, 2),
              violations=violations)
    with open(os.path.join(VERIF, edir, f"{check.prop}.json"), "w") as f:
        json.dump(ev, f, indent=1, default=str)
