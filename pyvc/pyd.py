"""Environment contract for pydantic models (DESIGN.md 3.2 `Pydantic`).

The *declarations* are read from the class table of /repo (fields, annotations, defaults, aliases,
model_config, model_post_init); what is assumed is pydantic-core's behaviour on them:
  * a constructor / model_validate accepts iff every supplied value inhabits its field annotation in
    lax mode (table below for the annotations met), required fields are present;
  * unknown members are kept iff the effective config has extra == "allow";
  * the class's own model_post_init from /repo is *executed symbolically* (not assumed); a ValueError /
    AssertionError raised there surfaces as pydantic's ValidationError (a ValueError);
  * model_dump(exclude_none, by_alias) emits declared fields (under alias iff by_alias) and extras,
    dropping None-valued top-level members iff exclude_none; nested plain dict payloads are emitted as is.
Annotations outside the table raise Unsupported (the obligation becomes undecided, never passed).
"""
from __future__ import annotations

import ast
from dataclasses import dataclass
from typing import Any, Dict, List, Optional

import z3

from . import vals as V
from .vals import Val
from .core import FnDesc, PyRaise, ClassDesc, Context
from .loader import Unsupported, ClassInfo
from . import prelude as P

REQUIRED = object()
json_of = z3.Function("json_of", Val, z3.StringSort())          # compact JSON text of a JSON value
EXTRA = "__extra__"


@dataclass
class FieldSpec:
    name: str
    annotation: Any
    default: Any            # AST node | REQUIRED | ('factory', node)
    alias: Optional[str]
    module: Any


def is_model(ctx: Context, cd: ClassDesc) -> bool:
    return cd.kind == "repo" and ("McpPydanticBase" in cd.bases or "BaseModel" in cd.bases)


def model_fields(ctx: Context, ci: ClassInfo) -> List[FieldSpec]:
    out: Dict[str, FieldSpec] = {}
    for c in reversed(ctx.repo.mro(ci)):
        for name, ann in c.annotations.items():
            if name == "model_config" or name.startswith("_"):
                continue
            if isinstance(ann, ast.Subscript) and isinstance(ann.value, ast.Name) and ann.value.id == "ClassVar":
                continue
            default, alias = REQUIRED, None
            if name in c.class_attrs:
                dn = c.class_attrs[name]
                if isinstance(dn, ast.Call) and isinstance(dn.func, ast.Name) and dn.func.id == "Field":
                    d2 = REQUIRED
                    if dn.args:
                        if not (isinstance(dn.args[0], ast.Constant) and dn.args[0].value is Ellipsis):
                            d2 = dn.args[0]
                    for kw in dn.keywords:
                        if kw.arg == "default":
                            d2 = kw.value
                        elif kw.arg == "default_factory":
                            d2 = ("factory", kw.value)
                        elif kw.arg == "alias" and isinstance(kw.value, ast.Constant):
                            alias = kw.value.value
                    default = d2
                else:
                    default = dn
            out[name] = FieldSpec(name, ann, default, alias, c.module)
    return list(out.values())


def model_extra_allowed(ctx: Context, ci: ClassInfo) -> bool:
    for c in ctx.repo.mro(ci):
        cfg = c.class_attrs.get("model_config")
        if cfg is None:
            continue
        if isinstance(cfg, ast.Call):
            for kw in cfg.keywords:
                if kw.arg == "extra" and isinstance(kw.value, ast.Constant):
                    return kw.value.value == "allow"
            continue      # a ConfigDict without 'extra' inherits
        if isinstance(cfg, ast.Dict):
            for k, v in zip(cfg.keys, cfg.values):
                if isinstance(k, ast.Constant) and k.value == "extra" and isinstance(v, ast.Constant):
                    return v.value == "allow"
    return True          # McpPydanticBase: extra="allow"


# --------------------------------------------------------------------------- annotations
def resolve_alias(ctx, module, node, depth=0):
    """Follow `RequestId = Union[int, str]`-style module constants."""
    if depth > 6:
        return module, node
    if isinstance(node, ast.Name) and module is not None:
        r = ctx.repo.resolve_import(module, node.id)
        if r is not None and r[0] == "const":
            mi, n2 = r[1]
            if isinstance(n2, (ast.Subscript, ast.Name, ast.Attribute)):
                return resolve_alias(ctx, mi, n2, depth + 1)
    if isinstance(node, ast.Constant) and isinstance(node.value, str):
        try:
            return resolve_alias(ctx, module, ast.parse(node.value, mode="eval").body, depth + 1)
        except SyntaxError:
            pass
    return module, node


def _sub_args(node):
    s = node.slice
    if isinstance(s, ast.Tuple):
        return list(s.elts)
    return [s]


def validate(I, module, ann, v, field="?"):
    """(ok: z3 Bool, coerced: Val) for value v against annotation `ann` in pydantic lax mode."""
    ctx = I.ctx
    module, ann = resolve_alias(ctx, module, ann)
    if ann is None:
        return z3.BoolVal(True), v
    if isinstance(ann, ast.Name):
        n = ann.id
        if n in ("Any", "object"):
            return z3.BoolVal(True), v
        if n == "str":
            ok = z3.Or(V.is_str(v), z3.And(V.is_bytes(v), P.utf8_ok(Val.bs(v))))
            return ok, z3.If(V.is_str(v), v, V.VStr(P.utf8_dec(Val.bs(v))))
        if n == "int":
            integral = z3.And(V.is_real(v), z3.IsInt(Val.r(v)))
            ok = z3.Or(V.is_int(v), V.is_bool(v), integral, z3.And(V.is_str(v), P.int_ok(Val.s(v))))
            co = z3.If(V.is_int(v), v, z3.If(V.is_bool(v), V.VInt(z3.If(Val.b(v), 1, 0)),
                       z3.If(V.is_real(v), V.VInt(z3.ToInt(Val.r(v))), V.VInt(P.int_of(Val.s(v))))))
            return ok, co
        if n == "float":
            ok = z3.Or(V.is_real(v), V.is_int(v), V.is_bool(v), z3.And(V.is_str(v), P.float_ok(v)))
            co = z3.If(V.is_real(v), v, z3.If(z3.Or(V.is_int(v), V.is_bool(v)), V.VReal(V.num_val(v)),
                                              V.VReal(P.float_of(v))))
            return ok, co
        if n == "bool":
            ok = z3.Or(V.is_bool(v), z3.And(V.is_int(v), z3.Or(Val.i(v) == 0, Val.i(v) == 1)))
            return ok, z3.If(V.is_bool(v), v, V.VBool(Val.i(v) == 1))
        if n in ("dict", "Dict"):
            return V.is_dict(v), v
        if n in ("list", "List"):
            return z3.Or(V.is_list(v), V.is_tuple(v)), z3.If(V.is_list(v), v, V.VList(Val.titems(v)))
        if n == "bytes":
            return z3.Or(V.is_bytes(v), V.is_str(v)), v
        # a model class (nested model): accepts an instance or a dict (validated recursively by pydantic:
        # the nested validation is NOT modelled - the nested value is kept opaque)
        r = ctx.repo.resolve_import(module, n) if module is not None else None
        if r is not None and r[0] == "class":
            cd = ctx.repo_class(r[1])
            inst = P.isinstance_term(I, v, V.VCls(cd.cid), None)
            I.ctx.assumptions.add("nested model fields are kept opaque (their own validation is not modelled)")
            return z3.Or(inst, V.is_dict(v)), v
        raise Unsupported(f"pydantic annotation '{n}' (field {field})")
    if isinstance(ann, ast.Constant) and ann.value is None:
        return V.is_none(v), v
    if isinstance(ann, ast.Subscript):
        head = ann.value.id if isinstance(ann.value, ast.Name) else (
            ann.value.attr if isinstance(ann.value, ast.Attribute) else "?")
        args = _sub_args(ann)
        if head == "Optional":
            ok, co = validate(I, module, args[0], v, field)
            return z3.Or(V.is_none(v), ok), z3.If(V.is_none(v), v, co)
        if head == "Literal":
            consts = []
            for a in args:
                if not isinstance(a, ast.Constant):
                    raise Unsupported(f"non-constant Literal (field {field})")
                consts.append(V.lift(a.value))
            return z3.Or([v == c for c in consts]), v
        if head == "Union":
            rargs = [resolve_alias(ctx, module, a)[1] for a in args]
            names = sorted(a.id for a in rargs if isinstance(a, ast.Name))
            if names == ["int", "str"] and len(rargs) == 2:
                integral = z3.And(V.is_real(v), z3.IsInt(Val.r(v)))
                ok = z3.Or(V.is_int(v), V.is_str(v), V.is_bool(v), integral,
                           z3.And(V.is_bytes(v), P.utf8_ok(Val.bs(v))))
                co = z3.If(z3.Or(V.is_int(v), V.is_str(v)), v,
                           z3.If(V.is_bool(v), V.VInt(z3.If(Val.b(v), 1, 0)),
                                 z3.If(V.is_real(v), V.VInt(z3.ToInt(Val.r(v))), V.VStr(P.utf8_dec(Val.bs(v))))))
                return ok, co
            oks, co = [], v
            results = [validate(I, module, a, v, field) for a in args]
            ok = z3.Or([r[0] for r in results])
            co = results[-1][1]
            for r in reversed(results[:-1]):
                co = z3.If(r[0], r[1], co)
            return ok, co
        if head in ("Dict", "dict", "Mapping"):
            return V.is_dict(v), v
        if head in ("List", "list", "Sequence"):
            return z3.Or(V.is_list(v), V.is_tuple(v)), z3.If(V.is_list(v), v, V.VList(Val.titems(v)))
        raise Unsupported(f"pydantic annotation {head}[...] (field {field})")
    if isinstance(ann, ast.BinOp) and isinstance(ann.op, ast.BitOr):
        l, r = validate(I, module, ann.left, v, field), validate(I, module, ann.right, v, field)
        return z3.Or(l[0], r[0]), z3.If(l[0], l[1], r[1])
    raise Unsupported(f"pydantic annotation {ast.dump(ann)[:60]} (field {field})")


# --------------------------------------------------------------------------- construction
class KwSource:
    def __init__(self, kwargs: Dict[str, Any]):
        self.kw = kwargs

    def present(self, name):
        return z3.BoolVal(name in self.kw)

    def value(self, name):
        return self.kw.get(name, V.NONE)

    def extras(self, declared):
        pairs = [(k, v) for k, v in self.kw.items() if k not in declared]
        return V.VDict(pairs), [k for k, _ in pairs]


class DictSource:
    def __init__(self, d):
        self.d = d

    def present(self, name):
        return z3.Select(Val.dkeys(self.d), z3.StringVal(name))

    def value(self, name):
        return z3.Select(Val.dvals(self.d), z3.StringVal(name))

    def extras(self, declared):
        ks = P.concrete_keys(self.d)
        if ks is not None:
            pairs = [(k, z3.simplify(z3.Select(Val.dvals(self.d), z3.StringVal(k)))) for k in ks if k not in declared]
            return V.VDict(pairs), [k for k, _ in pairs]
        x = z3.String("xk!e")
        keys = z3.Lambda([x], z3.And(z3.Select(Val.dkeys(self.d), x), *[x != z3.StringVal(n) for n in declared]))
        sz = z3.FreshInt("xsz")
        return Val.dict(V.fresh_dict_id(), keys, Val.dvals(self.d), sz), None


def validation_error(I, msg="validation error"):
    raise PyRaise(I.make_exc("PydanticValidationError", V.VStr(msg)), "PydanticValidationError")


def construct(I, cd: ClassDesc, src, node):
    ctx = I.ctx
    ci: ClassInfo = cd.info
    fields = model_fields(ctx, ci)
    declared = set()
    for f in fields:
        declared.add(f.name)
        if f.alias:
            declared.add(f.alias)
    oks = []
    values = {}
    for f in fields:
        pn = src.present(f.name)
        pres = pn
        raw = src.value(f.name)
        if f.alias:
            pa = src.present(f.alias)
            pres = z3.Or(pa, pn)
            raw = z3.If(pa, src.value(f.alias), raw)
        pres_c = V.concrete_bool(pres)
        if f.default is REQUIRED:
            dflt = None
        elif isinstance(f.default, tuple):
            dflt = I.call(I.eval_module_const(f.module, f.default[1]), [], {}, node)
        else:
            dflt = I.eval_module_const(f.module, f.default)
        if pres_c is False:
            if dflt is None:
                oks.append(z3.BoolVal(False))
                values[f.name] = V.NONE
            else:
                values[f.name] = dflt
            continue
        ok, co = validate(I, f.module, f.annotation, raw, f.name)
        if dflt is None:
            oks.append(z3.And(pres, ok))
            values[f.name] = co
        else:
            oks.append(z3.Implies(pres, ok))
            values[f.name] = co if pres_c is True else z3.If(pres, co, dflt)
    all_ok = z3.simplify(z3.And(oks)) if oks else z3.BoolVal(True)
    if not I.choose(all_ok, f"pydantic_accepts_{ci.name}"):
        validation_error(I, f"validation error for {ci.name}")
    ov = I.new_object(cd)
    for k, v in values.items():
        I.set_attr(ov, k, z3.simplify(v), record=False)
    extra, names = src.extras(declared)
    if model_extra_allowed(ctx, ci):
        I.set_attr(ov, EXTRA, extra, record=False)
        if names is not None:
            for k in names:
                I.set_attr(ov, k, z3.simplify(z3.Select(Val.dvals(extra), z3.StringVal(k))), record=False)
    else:
        I.set_attr(ov, EXTRA, V.VDict([]), record=False)
    # the class's own post-init hook, from /repo
    m = ctx.repo.find_method(ci, "model_post_init")
    if m is not None:
        try:
            I.call_function(m, [ov, V.NONE], {}, node, inline=True)
        except PyRaise as e:
            if e.cls_name in ("ValueError", "AssertionError"):
                msg, _ = I.get_field(e.val, "__msg__")
                raise PyRaise(I.make_exc("PydanticValidationError", msg), "PydanticValidationError")
            raise
    return ov


def base_model_dump(I, ov, kwargs):
    cd = I.class_of(ov)
    ci: ClassInfo = cd.info
    fields = model_fields(I.ctx, ci)
    excl = V.truthy(kwargs.get("exclude_none", V.FALSE))
    by_alias = V.concrete_bool(V.truthy(kwargs.get("by_alias", V.FALSE)))
    if by_alias is None:
        raise Unsupported("model_dump with symbolic by_alias")
    for k in kwargs:
        if k not in ("exclude_none", "by_alias", "mode", "exclude_unset", "exclude_defaults"):
            raise Unsupported(f"model_dump({k}=...)")
    keys, vals = V.EMPTY_KEYS, V.EMPTY_VALS
    size = z3.IntVal(0)
    for f in fields:
        v, has = I.get_field(ov, f.name)
        key = z3.StringVal(f.alias if (by_alias and f.alias) else f.name)
        inc = z3.simplify(z3.Not(z3.And(excl, V.is_none(v))))
        keys = z3.Store(keys, key, inc)
        vals = z3.Store(vals, key, z3.If(inc, v, V.NONE))
        size = size + z3.If(inc, 1, 0)
    ex, has = I.get_field(ov, EXTRA)
    ex = z3.simplify(ex)
    eks = P.concrete_keys(ex) if V.ctor_name(ex) == "dict" else None
    if eks is not None:
        for k in eks:
            v = z3.simplify(z3.Select(Val.dvals(ex), z3.StringVal(k)))
            inc = z3.simplify(z3.Not(z3.And(excl, V.is_none(v))))
            keys = z3.Store(keys, z3.StringVal(k), inc)
            vals = z3.Store(vals, z3.StringVal(k), z3.If(inc, v, V.NONE))
            size = size + z3.If(inc, 1, 0)
    else:
        x = z3.String("xk!d")
        dk, dv = keys, vals
        keep = z3.And(z3.Select(Val.dkeys(ex), x), z3.Not(z3.And(excl, V.is_none(z3.Select(Val.dvals(ex), x)))))
        keys = z3.Lambda([x], z3.Or(z3.Select(dk, x), keep))
        vals = z3.Lambda([x], z3.If(z3.Select(dk, x), z3.Select(dv, x), z3.If(keep, z3.Select(Val.dvals(ex), x), V.NONE)))
        size = size + I.fresh_int("exsz")
    return Val.dict(V.fresh_dict_id(), keys, vals, z3.simplify(size))


def install(ctx: Context):
    def instantiate_hook(I, cd, args, kwargs, node):
        if not is_model(ctx, cd):
            return None
        if args:
            I.throw("TypeError", "BaseModel.__init__() takes keyword arguments only")
        return construct(I, cd, KwSource(kwargs), node)

    def class_attr_hook(I, cd, name, node):
        if not is_model(ctx, cd):
            return None
        if name == "model_validate":
            def mv(I2, args, kwargs, node2=None):
                return model_validate(I2, cd, args[0], node2)
            return ctx.fn_val(FnDesc("builtin", lambda I2, a, k, n: model_validate(I2, cd, a[0], n),
                                     name=f"{cd.name}.model_validate"))
        return None

    def instance_attr_hook(I, cd, sv, name, node):
        if not is_model(ctx, cd):
            return None
        if name == "model_dump":
            return ctx.fn_val(FnDesc("builtin", lambda I2, a, k, n: base_model_dump(I2, sv, k), name="model_dump"))
        if name == "model_dump_json":
            return ctx.fn_val(FnDesc("builtin", lambda I2, a, k, n: V.VStr(json_of(base_model_dump(I2, sv, k))),
                                     name="model_dump_json"))
        return None

    def external_super_hook(I, cd, selfv, mname, args, kwargs, node):
        if not is_model(ctx, cd):
            return None
        sv = z3.simplify(selfv)
        if mname == "model_dump":
            return base_model_dump(I, sv, kwargs)
        if mname == "model_dump_json":
            return V.VStr(json_of(base_model_dump(I, sv, kwargs)))
        if mname == "model_validate":
            target = I.ctx.cls_desc(sv) or cd
            return model_validate(I, target, args[0], node)
        if mname == "model_post_init":
            return V.NONE
        return None

    ctx.instantiate_hook = instantiate_hook
    ctx.class_attr_hook = class_attr_hook
    ctx.instance_attr_hook = instance_attr_hook
    ctx.external_super_hook = external_super_hook


def model_validate(I, cd: ClassDesc, data, node):
    sv = z3.simplify(data)
    cn = V.ctor_name(sv)
    if cn is None:
        if I.choose(V.is_dict(sv), "validate_arg_is_dict"):
            return construct(I, cd, DictSource(sv), node)
        inst = P.isinstance_term(I, sv, V.VCls(cd.cid), node)
        if I.choose(inst, "validate_arg_is_instance"):
            return sv
        validation_error(I, "Input should be a valid dictionary or instance")
    if cn == "dict":
        return construct(I, cd, DictSource(sv), node)
    if cn == "obj":
        c = I.class_of(sv)
        if c is not None and I.ctx.is_subclass(c, cd):
            return sv
    validation_error(I, "Input should be a valid dictionary or instance")
