"""Statement and expression semantics (one path).  See core.py for the execution model."""
from __future__ import annotations

import ast
import os
from typing import Any, Dict, List, Optional, Tuple

import z3

from . import vals as V
from .vals import Val
from .core import (Interp, Frame, FnDesc, ClassDesc, PyRaise, ReturnSig, BreakSig, ContinueSig, PathEnd,
                   EngineError, BUILTIN_ATTRS, EXTERN_EXC_ALIASES)
from .loader import Unsupported, FuncInfo, ClassInfo, ModuleInfo

LOGGING_NAMES = {"logging", "logger", "log", "_logger"}
LOG_METHODS = {"debug", "info", "warning", "error", "exception", "critical", "warn", "log"}


def _loops_of(fnode) -> List[ast.AST]:
    """Loops of a function in source order, not descending into nested defs' own numbering."""
    out = []

    def walk(n):
        for c in ast.iter_child_nodes(n):
            if isinstance(c, (ast.While, ast.For, ast.AsyncFor)):
                out.append(c)
            walk(c)
    walk(fnode)
    out.sort(key=lambda n: (n.lineno, n.col_offset))
    return out


def assigned_names(nodes) -> set:
    """Names syntactically (re)bound inside the statements (including nested closures' nonlocals)."""
    names = set()
    for root in nodes:
        for n in ast.walk(root):
            if isinstance(n, ast.Name) and isinstance(n.ctx, (ast.Store, ast.Del)):
                names.add(n.id)
            elif isinstance(n, ast.ExceptHandler) and n.name:
                names.add(n.name)
            elif isinstance(n, (ast.FunctionDef, ast.AsyncFunctionDef)):
                names.add(n.name)
            elif isinstance(n, (ast.Import, ast.ImportFrom)):
                for a in n.names:
                    names.add((a.asname or a.name).split(".")[0])
    return names


AUTO_KINDS = {
    "dict": lambda v: z3.And(V.is_dict(v), Val.dsize(v) >= 0),
    "list": lambda v: V.is_list(v),
    "tuple": lambda v: V.is_tuple(v),
    "str": lambda v: V.is_str(v),
    "int": lambda v: V.is_int(v),
    "bool": lambda v: V.is_bool(v),
}


class MaybeUnbound:
    """A local assigned in a loop body but unbound when the loop was entered: at an arbitrary iteration it
    either still is unbound or holds a value from an earlier iteration.  Decided lazily at the first read."""

    def __init__(self, name):
        self.name = name


def function_locals(fnode) -> set:
    cache = getattr(fnode, "_pyvc_locals", None)
    if cache is None:
        cache = assigned_names(fnode.body) if hasattr(fnode, "body") and isinstance(fnode.body, list) else set()
        for a in fnode.args.posonlyargs + fnode.args.args + fnode.args.kwonlyargs:
            cache.add(a.arg)
        fnode._pyvc_locals = cache
    return cache


class Exec(Interp):
    # ======================================================================== frames / names
    def push_frame(self, func: Optional[FuncInfo], module: ModuleInfo, parent: Optional[Frame] = None,
                   tag: str = "") -> Frame:
        self.frame_counter += 1
        f = Frame(self.frame_counter, func, module, {}, parent, set(), len(self.frames))
        f.key = tuple(self.call_chain) + (tag,)
        self.frames.append(f)
        return f

    def pop_frame(self):
        self.frames.pop()

    @property
    def frame(self) -> Frame:
        return self.frames[-1]

    def set_local(self, name, val, frame: Frame = None):
        f = frame or self.frame
        if name in f.nonlocals:
            p = f.parent
            while p is not None:
                if name in p.vars or name not in p.nonlocals:
                    if name in p.vars or p.parent is None:
                        break
                p = p.parent
            # find the nearest enclosing frame that binds the name
            p = f.parent
            while p is not None and name not in p.vars:
                p = p.parent
            if p is None:
                raise Unsupported(f"nonlocal {name} not bound")
            f = p
        f.vars[name] = val
        self.record_write(("local", f.key, name))

    def lookup(self, name, node=None):
        f = self.frame
        while f is not None:
            if name in f.vars:
                v = f.vars[name]
                if isinstance(v, MaybeUnbound):
                    if self.choose_n(2, f"{name}_bound_by_an_earlier_iteration") == 0:
                        v = self.fresh(f"prev_{name}")
                        f.vars[name] = v
                        return v
                    del f.vars[name]
                    self.throw("UnboundLocalError", f"cannot access local variable '{name}'")
                return v
            f = f.parent
        # a name that is a local of the enclosing function but not bound yet
        fr = self.frame
        fnode = getattr(fr, "fnode", None)
        if fnode is not None and name in function_locals(fnode):
            self.throw("UnboundLocalError", f"cannot access local variable '{name}' where it is not associated with a value")
        return self.lookup_global(self.frame.module, name, node)


    def lookup_global(self, mi: ModuleInfo, name, node=None):
        ov = getattr(self.ctx, "global_overrides", None)
        if ov and mi is not None and (mi.name, name) in ov:
            return ov[(mi.name, name)]
        r = self.ctx.repo.resolve_import(mi, name) if mi is not None else None
        if r is not None:
            return self.static_to_val(r)
        from . import prelude
        if name in prelude.BUILTINS:
            return self.ctx.fn_val(FnDesc("builtin", prelude.BUILTINS[name], name=name), key=("builtin", name))
        if f"builtins.{name}" in self.ctx.extern_handlers:
            return self.static_to_val(("extern", f"builtins.{name}"))
        if name in self.ctx.class_by_name and self.ctx.class_by_name[name].kind in ("exc", "builtin"):
            return V.VCls(self.ctx.class_by_name[name].cid)
        if name in ("True", "False", "None"):
            return {"True": V.TRUE, "False": V.FALSE, "None": V.NONE}[name]
        if name == "__name__":
            return V.VStr(mi.name if mi else "")
        raise Unsupported(f"unresolved name {name}", node)

    def static_to_val(self, r):
        kind, payload = r
        if kind == "func":
            return self.ctx.fn_val(FnDesc("func", payload, name=payload.qualname), key=("func", payload.key))
        if kind == "class":
            return V.VCls(self.ctx.repo_class(payload).cid)
        if kind == "const":
            mi, node = payload
            return self.eval_module_const(mi, node)
        if kind == "module":
            return self.ctx.fn_val(FnDesc("module", payload, name=payload), key=("module", payload))
        if kind == "extern":
            ev = getattr(self.ctx, "extern_values", None)
            if ev and payload in ev:
                return ev[payload]
            alias = EXTERN_EXC_ALIASES.get(payload)
            if alias:
                return V.VCls(self.ctx.cls_named(alias).cid)
            last = payload.split(".")[-1]
            return self.ctx.fn_val(FnDesc("extern", payload, name=payload), key=("extern", payload))
        raise Unsupported(f"static {kind}")

    def eval_module_const(self, mi: ModuleInfo, node):
        f = self.push_frame(None, mi, None, tag=f"<module {mi.name}>")
        try:
            return self.eval(node)
        finally:
            self.pop_frame()

    # ======================================================================== statements
    def exec_block(self, stmts):
        for s in stmts:
            self.exec_stmt(s)

    def exec_stmt(self, s):
        self.cur_line = getattr(s, "lineno", self.cur_line)
        m = getattr(self, "stmt_" + type(s).__name__, None)
        if m is None:
            raise Unsupported(f"statement {type(s).__name__}", s)
        return m(s)

    def stmt_Pass(self, s):
        pass

    def stmt_Global(self, s):
        raise Unsupported("global statement", s)

    def stmt_Nonlocal(self, s):
        self.frame.nonlocals.update(s.names)

    def stmt_Import(self, s):
        for a in s.names:
            top = a.name.split(".")[0]
            name = a.asname or top
            target = a.name if a.asname else top
            if target.startswith("chuk_mcp"):
                v = self.static_to_val(("module", target))
            else:
                v = self.static_to_val(("extern", target))
            self.frame.vars[name] = v

    def stmt_ImportFrom(self, s):
        mi = self.frame.module
        mod = self.ctx.repo._resolve_rel(mi, s)
        for a in s.names:
            name = a.asname or a.name
            if mod.startswith("chuk_mcp"):
                target = self.ctx.repo.load(mod)
                r = self.ctx.repo.resolve_import(target, a.name) if target else None
                if r is None and self.ctx.repo.load(f"{mod}.{a.name}"):
                    r = ("module", f"{mod}.{a.name}")
                if r is None:
                    raise Unsupported(f"cannot resolve from {mod} import {a.name}", s)
                self.frame.vars[name] = self.static_to_val(r)
            else:
                self.frame.vars[name] = self.static_to_val(("extern", f"{mod}.{a.name}"))

    def stmt_Expr(self, s):
        if isinstance(s.value, ast.Constant):
            return  # docstring
        self.eval(s.value)

    def stmt_Assign(self, s):
        v = self.eval(s.value)
        for t in s.targets:
            self.assign(t, v)
            self._note_alias(t, s.value, v)

    def stmt_AnnAssign(self, s):
        if s.value is not None:
            v = self.eval(s.value)
            self.assign(s.target, v)
            self._note_alias(s.target, s.value, v)

    # ---- aliases of containers held in attributes.  Containers are values in this engine; the one aliasing pattern that
    # is common in the code base - `x = self.attr` followed by mutation of `x` - is handled by remembering the origin:
    # a mutation through the local is written back to the origin as well, and a read of the local sees a mutation made
    # through the origin.  Anything less clear-cut drops the link (the local then is an independent value: the documented
    # no-aliasing assumption).
    @staticmethod
    def _attr_chain(node):
        n = node
        while isinstance(n, ast.Attribute):
            n = n.value
        return isinstance(node, ast.Attribute) and isinstance(n, ast.Name)

    def _note_alias(self, target, value_node, v):
        if not isinstance(target, ast.Name):
            return
        al = self.frame.__dict__.setdefault("aliases", {})
        al.pop(target.id, None)
        if self._attr_chain(value_node):
            sv = z3.simplify(v)
            cn = V.ctor_name(sv)
            if cn is None:
                from . import prelude
                if prelude.entails(self, z3.Or(V.is_dict(sv), V.is_list(sv))):
                    cn = "dict"
            if cn in ("dict", "list"):
                al[target.id] = [value_node, sv]

    def _alias_sync_read(self, name):
        al = self.frame.__dict__.get("aliases")
        if not al or name not in al or getattr(self, "_in_alias", False):
            return
        origin, last = al[name]
        self._in_alias = True
        try:
            cur = z3.simplify(self.eval(origin))
        except (PyRaise, Unsupported):
            al.pop(name, None)
            return
        finally:
            self._in_alias = False
        if not z3.eq(cur, last):
            if z3.eq(z3.simplify(self.frame.vars.get(name)), last):
                self.frame.vars[name] = cur          # mutated through the origin: the local names the same container
                al[name][1] = cur
            else:
                al.pop(name, None)

    def _alias_write_through(self, name, old, new):
        al = self.frame.__dict__.get("aliases")
        if not al or name not in al or getattr(self, "_in_alias", False):
            return
        origin, last = al[name]
        self._in_alias = True
        try:
            try:
                cur = z3.simplify(self.eval(origin))
            except (PyRaise, Unsupported):
                al.pop(name, None)
                return
            if z3.eq(cur, z3.simplify(old)):
                self.write_back(origin, new)
                al[name][1] = z3.simplify(new)
            else:
                al.pop(name, None)
        finally:
            self._in_alias = False

    def stmt_AugAssign(self, s):
        cur = self.eval(self._load_of(s.target))
        rhs = self.eval(s.value)
        from . import prelude
        self.assign(s.target, prelude.binop(self, s.op, cur, rhs, s))

    def _load_of(self, t):
        if isinstance(t, ast.Name):
            return ast.copy_location(ast.Name(t.id, ast.Load()), t)
        if isinstance(t, ast.Attribute):
            return ast.copy_location(ast.Attribute(t.value, t.attr, ast.Load()), t)
        if isinstance(t, ast.Subscript):
            return ast.copy_location(ast.Subscript(t.value, t.slice, ast.Load()), t)
        raise Unsupported("augmented target", t)

    def stmt_Delete(self, s):
        from . import prelude
        for t in s.targets:
            if isinstance(t, ast.Subscript):
                cont = self.eval(t.value)
                key = self.eval(t.slice)
                new = prelude.del_item(self, cont, key, t)
                self.write_back(t.value, new)
            elif isinstance(t, ast.Name):
                self.frame.vars.pop(t.id, None)
            elif isinstance(t, ast.Attribute):
                self.del_attr(self.eval(t.value), t.attr)
            else:
                raise Unsupported("del target", t)

    def stmt_Return(self, s):
        raise ReturnSig(self.eval(s.value) if s.value is not None else V.NONE)

    def stmt_Break(self, s):
        raise BreakSig()

    def stmt_Continue(self, s):
        raise ContinueSig()

    def stmt_Assert(self, s):
        v = self.eval(s.test)
        if not self.truth(v, "assert"):
            self.throw("AssertionError")

    def stmt_If(self, s):
        v = self.eval(s.test)
        if self.truth(v, "if"):
            self.exec_block(s.body)
        else:
            self.exec_block(s.orelse)

    def stmt_Raise(self, s):
        if s.exc is None:
            if not self.st.handling:
                self.throw("RuntimeError", "No active exception to reraise")
            raise self.st.handling[-1]
        v = self.eval(s.exc)
        cd = self.ctx.cls_desc(v)
        if cd is not None:                      # `raise SomeClass`
            v = self.instantiate(cd, [], {}, s)
        if V.ctor_name(z3.simplify(v)) != "obj":
            raise Unsupported("raise of a non-object", s)
        c = self.class_of(v)
        if c is None:
            raise Unsupported("raise of object with undetermined class", s)
        raise PyRaise(v, c.name)

    def stmt_FunctionDef(self, s):
        desc = FnDesc("closure", s, frame=self.frame, name=s.name)
        self.set_local(s.name, self.ctx.fn_val(desc))

    stmt_AsyncFunctionDef = stmt_FunctionDef

    def stmt_ClassDef(self, s):
        raise Unsupported("nested class", s)

    # ---- try
    def stmt_Try(self, s):
        pending = None      # control signal to re-raise after finally
        try:
            try:
                self.exec_block(s.body)
            except PyRaise as e:
                handled = False
                for h in s.handlers:
                    if self.handler_matches(h, e):
                        handled = True
                        if h.name:
                            self.set_local(h.name, e.val)
                        self.st.handling.append(e)
                        try:
                            self.exec_block(h.body)
                        finally:
                            self.st.handling.pop()
                        break
                if not handled:
                    raise
            else:
                self.exec_block(s.orelse)
        except (PathEnd, Unsupported, EngineError):
            raise
        except (PyRaise, ReturnSig, BreakSig, ContinueSig) as sig:
            if not s.finalbody:
                raise
            pending = sig
        if s.finalbody:
            self.exec_block(s.finalbody)     # a signal raised here replaces the pending one (python semantics)
            if pending is not None:
                raise pending

    stmt_TryStar = None

    def handler_matches(self, h: ast.ExceptHandler, e: PyRaise) -> bool:
        if h.type is None:
            return True
        tv = self.eval(h.type)
        targets = []
        sv = z3.simplify(tv)
        if V.ctor_name(sv) == "tuple":
            n = z3.simplify(z3.Length(Val.titems(sv)))
            for k in range(n.as_long()):
                targets.append(z3.simplify(Val.titems(sv)[k]))
        else:
            targets.append(sv)
        for t in targets:
            cd = self.ctx.cls_desc(t)
            if cd is None:
                d = self.ctx.fn_desc(t)
                if d is not None and d.kind == "extern":
                    nm = EXTERN_EXC_ALIASES.get(d.payload)
                    if nm:
                        cd = self.ctx.cls_named(nm)
                    elif d.payload.endswith("get_cancelled_exc_class"):
                        cd = self.ctx.cls_named("CancelledError")
                if cd is None:
                    raise Unsupported("except clause with non-class", h)
            if self.exc_matches(e, cd):
                return True
        return False

    # ---- with
    def stmt_With(self, s, is_async=False):
        self._with_items(s, list(s.items), is_async)

    def stmt_AsyncWith(self, s):
        self.stmt_With(s, True)

    def _with_items(self, s, items, is_async):
        if not items:
            self.exec_block(s.body)
            return
        item = items[0]
        cm = self.eval(item.context_expr)
        enter_name, exit_name = ("__aenter__", "__aexit__") if is_async else ("__enter__", "__exit__")
        exit_fn = self.get_attr(cm, exit_name, item.context_expr)
        enter_fn = self.get_attr(cm, enter_name, item.context_expr)
        v = self.call(enter_fn, [], {}, item.context_expr, awaited=True)
        if item.optional_vars is not None:
            self.assign(item.optional_vars, v)
        try:
            self._with_items(s, items[1:], is_async)
        except (PathEnd, Unsupported, EngineError):
            raise
        except PyRaise as e:
            self.st.handling.append(e)
            try:
                r = self.call(exit_fn, [self.exc_type_val(e), e.val, V.NONE], {}, item.context_expr, awaited=True,
                              exc=e)
            finally:
                self.st.handling.pop()
            if self.truth(r, "with_exit_swallows"):
                return
            raise
        except (ReturnSig, BreakSig, ContinueSig):
            self.call(exit_fn, [V.NONE, V.NONE, V.NONE], {}, item.context_expr, awaited=True)
            raise
        else:
            self.call(exit_fn, [V.NONE, V.NONE, V.NONE], {}, item.context_expr, awaited=True)

    def exc_type_val(self, e: PyRaise):
        if e.cls_name in self.ctx.class_by_name:
            return V.VCls(self.ctx.class_by_name[e.cls_name].cid)
        return V.NONE

    # ---- loops
    def loop_key(self, node):
        return (tuple(self.call_chain), node.lineno)

    def loop_ordinal(self, node) -> Tuple[str, int]:
        f = self.frame
        while f is not None and f.func is None:
            f = f.parent
        fi = f.func if f else None
        # closures: number loops within the enclosing top-level function definition
        top = fi.node if fi is not None else None
        if top is None:
            return ("?", -1)
        loops = _loops_of(top)
        for k, n in enumerate(loops):
            if n is node:
                return (fi.key, k)
        return (fi.key, -1)

    def stmt_While(self, s):
        self._cut_loop(s, kind="while")

    def stmt_For(self, s):
        self._for(s, False)

    def stmt_AsyncFor(self, s):
        self._for(s, True)

    def _for(self, s, is_async):
        it = self.eval(s.iter)
        sv = z3.simplify(it)
        cn = V.ctor_name(sv)
        d = self.ctx.fn_desc(sv) if cn == "fn" else None
        if (d is not None and d.kind == "dictview") or cn == "dict":
            sv = self.dict_as_sequence(d.payload if d is not None else sv, d.name if d is not None else "keys", s)
            cn = V.ctor_name(sv)
        fkey, ordinal = self.loop_ordinal(s)
        inv = self.ctx.contracts_loop(fkey, ordinal) if hasattr(self.ctx, "contracts_loop") else None
        if cn in ("list", "tuple") and inv is None:
            seq = Val.items(sv) if cn == "list" else Val.titems(sv)
            n = z3.simplify(z3.Length(seq))
            if z3.is_int_value(n) and n.as_long() <= 24:
                # concrete short sequence: unrolled (no bound is involved, the length is known)
                broke = False
                for k in range(n.as_long()):
                    self.assign(s.target, z3.simplify(seq[k]))
                    try:
                        self.exec_block(s.body)
                    except BreakSig:
                        broke = True
                        break
                    except ContinueSig:
                        continue
                if not broke:
                    self.exec_block(s.orelse)
                return
        self._cut_loop(s, kind="afor" if is_async else "for", iterable=sv)

    def dict_as_sequence(self, D, what, node):
        """Iteration over a dict (view): a list R of its keys / values / (key, value) pairs in unspecified
        order.  Literal dicts are enumerated; a symbolic dict becomes a fresh sequence whose length is the
        dict size and whose elements are characterised when they are read (element axiom)."""
        from . import prelude
        D = z3.simplify(D)
        ks = prelude.concrete_keys(D)
        if ks is not None:
            out = []
            for k in ks:
                v = z3.simplify(z3.Select(Val.dvals(D), z3.StringVal(k)))
                out.append({"keys": V.VStr(k), "values": v, "items": V.VTuple([V.VStr(k), v])}[what])
            return V.VList(out)
        self.counter += 1
        R = z3.Const(f"dictseq~{self.counter}", V.SeqVal)
        self.assume(z3.And(Val.dsize(D) >= 0, z3.Length(R) == Val.dsize(D)))
        if not hasattr(self, "seq_axioms"):
            self.seq_axioms = {}

        def axiom(I, i, e):
            if what == "items":
                k = Val.s(Val.titems(e)[0])
                I.assume(z3.And(V.is_tuple(e), z3.Length(Val.titems(e)) == 2, V.is_str(Val.titems(e)[0]),
                                z3.Select(Val.dkeys(D), k), Val.titems(e)[1] == z3.Select(Val.dvals(D), k)))
            elif what == "keys":
                k = Val.s(e)
                I.assume(z3.And(V.is_str(e), z3.Select(Val.dkeys(D), k)))
            else:
                k = I.fresh("vk", z3.StringSort())
                I.assume(z3.And(z3.Select(Val.dkeys(D), k), e == z3.Select(Val.dvals(D), k)))
            h = getattr(I, "dict_entry_hook", None)
            if h is not None:
                h(I, D, k)
        self.seq_axioms[R.get_id()] = axiom
        return V.VList(R)

    def _cut_loop(self, s, kind, iterable=None):
        fkey, ordinal = self.loop_ordinal(s)
        key = self.loop_key(s)
        inv = self.ctx.contracts_loop(fkey, ordinal)
        iname = f"__i{ordinal}"
        itername = f"__it{ordinal}"
        seq = None
        if kind in ("for", "afor"):
            cn = V.ctor_name(iterable)
            if cn in ("list", "tuple"):
                seq = Val.items(iterable) if cn == "list" else Val.titems(iterable)
                self.frame.vars[iname] = V.VInt(0)
            elif cn == "obj" or cn == "fn":
                self.frame.vars[itername] = iterable
            else:
                # symbolic value: must be a list/tuple for the subset
                if self.choose(V.is_list(iterable), "iter_is_list"):
                    seq = Val.items(iterable)
                elif self.choose(V.is_tuple(iterable), "iter_is_tuple"):
                    seq = Val.titems(iterable)
                elif self.choose(V.is_dict(iterable), "iter_is_dict"):
                    raise Unsupported("iteration over a symbolic dict", s)
                else:
                    self.throw("TypeError", "object is not iterable")
                self.frame.vars[iname] = V.VInt(0)
        # 1. invariant holds on entry
        self._loop_inv(inv, s, "entry", assert_=True, seq=seq)
        # 2. havoc the write set
        wset = set(self.ctx.loop_writes.get(key, set()))
        for nm in assigned_names(s.body + ([s.target] if hasattr(s, "target") else [])):
            wset.add(("local", self.frame.key, nm))
        self.ctx.loop_writes.setdefault(key, set()).update(wset)
        # inferred type-stability invariants (Houdini): a local of this frame whose value at loop entry has a definite
        # kind keeps that kind, unless a back edge refutes it (then the candidate is dropped and the function re-explored)
        auto = []
        for cell in sorted(wset, key=repr):
            if cell[0] == "local" and cell[1] == self.frame.key and cell[2] in self.frame.vars:
                v0 = self.frame.vars[cell[2]]
                if isinstance(v0, MaybeUnbound) or not z3.is_expr(v0) or cell[2] == iname:
                    continue
                kd = V.ctor_name(z3.simplify(v0))
                if kd in AUTO_KINDS and ("refuted", self.frame.key, cell[2], kd) not in wset:
                    auto.append((cell[2], kd))
        # inferred value-stability invariants (same Houdini scheme): a flag-like cell - a local of any live frame or an
        # attribute of a concrete object - that holds a literal bool / None at loop entry keeps it, unless refuted
        def _flag(v):
            sv = z3.simplify(v)
            if V.ctor_name(sv) == "none":
                return sv
            if V.ctor_name(sv) == "bool":
                b = z3.simplify(Val.b(sv))
                return sv if (z3.is_true(b) or z3.is_false(b)) else None
            return None
        frames_by_key = {}
        for f in self.frames:
            g = f
            while g is not None:
                frames_by_key.setdefault(g.key, g)
                g = g.parent
        auto_vals = []
        for cell in sorted(wset, key=repr):
            if cell[0] == "local" and cell[2] != iname:
                f = frames_by_key.get(cell[1])
                v0 = f.vars.get(cell[2]) if f is not None else None
                if v0 is None or isinstance(v0, MaybeUnbound) or not z3.is_expr(v0):
                    continue
                lit = _flag(v0)
                if lit is not None and ("refuted", cell[1], cell[2], "val") not in wset:
                    auto_vals.append(("local", cell[1], cell[2], lit))
            elif cell[0] == "heap" and cell[2] is not None:
                hv, hs = self.get_field(V.VObj(cell[2]), cell[1])
                if not z3.is_true(hs):
                    continue
                lit = _flag(hv)
                if lit is not None and ("refuted", "heap", cell[1], cell[2], "val") not in wset:
                    auto_vals.append(("heap", cell[1], cell[2], lit))
        if os.environ.get("PYVC_DEBUG_AUTO"):
            print(f"[auto] loop {key}: wset={sorted(wset, key=repr)[:40]} auto={auto} auto_vals={auto_vals}", flush=True)
        self.havoc(wset, keep={iname} if seq is not None else set())
        for nm, kd in auto:
            self.assume(AUTO_KINDS[kd](self.frame.vars[nm]))
        for c in auto_vals:
            if c[0] == "local":
                self.assume(frames_by_key[c[1]].vars[c[2]] == c[3])
            else:
                h, a = self.st.field(c[1])
                self.assume(z3.And(z3.Select(a, c[2]), z3.Select(h, c[2]) == c[3]))
        self.loop_auto_vals = getattr(self, "loop_auto_vals", {})
        self.loop_auto_vals[key] = auto_vals
        # a local that aliases a container held in an attribute and is only MUTATED (never rebound) in the loop still names
        # that container at every iteration
        al = self.frame.__dict__.get("aliases") or {}
        if al:
            rebound = assigned_names(s.body + ([s.target] if hasattr(s, "target") else []))
            for nm in list(al):
                if nm in rebound:
                    al.pop(nm, None)
                    continue
                self._in_alias = True
                try:
                    cur = z3.simplify(self.eval(al[nm][0]))
                    self.frame.vars[nm] = cur
                    al[nm][1] = cur
                except (PyRaise, Unsupported):
                    al.pop(nm, None)
                finally:
                    self._in_alias = False
        self.loop_auto = getattr(self, "loop_auto", {})
        self.loop_auto[key] = (self.frame.key, auto)
        if seq is not None:
            i = self.fresh_int("i")
            self.assume(z3.And(i >= 0, i <= z3.Length(seq)))
            self.frame.vars[iname] = V.VInt(i)
        rec = (key, set())
        self.write_recorders.append(rec)
        try:
            # 3. assume the invariant at the (arbitrary) head
            self._loop_inv(inv, s, "head", assert_=False, seq=seq)
            # 4. guard
            if kind == "while":
                g = self.eval(s.test)
                enter = self.truth(g, "while")
            elif seq is not None:
                i = Val.i(self.frame.vars[iname])
                enter = self.choose(i < z3.Length(seq), "for_has_next")
                if enter:
                    elem = z3.simplify(seq[i])
                    ax = getattr(self, "seq_axioms", {}).get(z3.simplify(seq).get_id())
                    if ax is not None:
                        ax(self, i, elem)
                    self.assign(s.target, elem)
            else:
                nxt = self.iter_next(self.frame.vars[itername], s, kind == "afor")
                enter = nxt is not None
                if enter:
                    self.assign(s.target, nxt)
            if enter:
                try:
                    self.exec_block(s.body)
                    self._back_edge(inv, s, seq, iname)
                except ContinueSig:
                    self._back_edge(inv, s, seq, iname)
                except BreakSig:
                    self._merge_writes(rec)
                    return
            else:
                self._merge_writes(rec)
                self.exec_block(s.orelse)
                return
        except (PathEnd, Unsupported, EngineError):
            self._merge_writes(rec)
            raise
        except (PyRaise, ReturnSig):
            self._merge_writes(rec)
            raise
        finally:
            if self.write_recorders and self.write_recorders[-1] is rec:
                self.write_recorders.pop()

    def _merge_writes(self, rec):
        key, s = rec
        live = {f.key for f in self.frames}
        for f in list(self.frames):
            p = f.parent
            while p is not None:
                live.add(p.key)
                p = p.parent
        keep = {c for c in s if c[0] != "local" or c[1] in live}
        cur = self.ctx.loop_writes.setdefault(key, set())
        if not keep <= cur:
            cur |= keep
            self.ctx.loop_writes_changed = True
        if self.write_recorders and self.write_recorders[-1] is rec:
            self.write_recorders.pop()

    def _back_edge(self, inv, s, seq, iname):
        if seq is not None:
            self.frame.vars[iname] = V.VInt(z3.simplify(Val.i(self.frame.vars[iname]) + 1))
        self._loop_inv(inv, s, "back", assert_=True, seq=seq)
        # inferred candidates must be re-established here; one that is not is recorded as refuted (write-set channel)
        from . import prelude
        key = self.loop_key(s)
        fk, auto = getattr(self, "loop_auto", {}).get(key, (None, []))
        for nm, kd in auto:
            v = self.frame.vars.get(nm) if self.frame.key == fk else None
            ok = v is not None and not isinstance(v, MaybeUnbound) and \
                (V.ctor_name(z3.simplify(v)) == kd or prelude.entails(self, AUTO_KINDS[kd](v)))
            if not ok:
                self.write_recorders[-1][1].add(("refuted", fk, nm, kd))
        frames_by_key = {}
        for f in self.frames:
            g = f
            while g is not None:
                frames_by_key.setdefault(g.key, g)
                g = g.parent
        for c in getattr(self, "loop_auto_vals", {}).get(key, []):
            if c[0] == "local":
                f = frames_by_key.get(c[1])
                v = f.vars.get(c[2]) if f is not None else None
                ok = v is not None and not isinstance(v, MaybeUnbound) and \
                    (z3.eq(z3.simplify(v), c[3]) or prelude.entails(self, v == c[3]))
                if not ok:
                    self.write_recorders[-1][1].add(("refuted", c[1], c[2], "val"))
            else:
                h, a = self.st.field(c[1])
                v = z3.simplify(z3.Select(h, c[2]))
                ok = z3.eq(v, c[3]) or prelude.entails(self, z3.And(z3.Select(a, c[2]), v == c[3]))
                if not ok:
                    self.write_recorders[-1][1].add(("refuted", "heap", c[1], c[2], "val"))
        # record writes before the path stops
        rec = self.write_recorders[-1]
        self._merge_writes(rec)
        raise PathEnd("back edge")

    def _loop_inv(self, inv, s, phase, assert_, seq=None):
        if inv is None:
            return
        self.loop_seq = seq          # the sequence being iterated (None for while / iterator loops)
        try:
            clauses = inv(self, phase)
        except (Unsupported, PathEnd, PyRaise, EngineError):
            raise
        except Exception as ex:
            # an invariant written for another shape of the loop (e.g. it names a local that no longer exists): the
            # function's obligations are undecided, never a violation or a crash
            raise Unsupported(f"loop invariant not applicable to the current code ({type(ex).__name__}: {ex})", s)
        for cl in clauses:
            name, cond = cl[0], cl[1]
            meta = cl[2] if len(cl) > 2 else {}
            if assert_:
                self.oblige(f"{name}.{'init' if phase == 'entry' else 'preserved'}", cond, loop_line=s.lineno, **meta)
            elif not meta.get("assert_only") and not meta.get("classes"):
                self.assume(cond)

    def iter_next(self, itv, node, is_async):
        """One step of the iteration protocol on an environment iterable.  Returns None at the end."""
        nm = "__anext__" if is_async else "__next__"
        fn = self.get_attr(itv, nm, node)
        try:
            return self.call(fn, [], {}, node, awaited=True)
        except PyRaise as e:
            if e.cls_name in ("StopAsyncIteration", "StopIteration"):
                return None
            raise

    def havoc(self, wset, keep=()):
        frames_by_key = {}
        for f in self.frames:
            frames_by_key.setdefault(f.key, f)
            p = f.parent
            while p is not None:
                frames_by_key.setdefault(p.key, p)
                p = p.parent
        fields_all = set()
        for cell in sorted(wset, key=repr):
            if cell[0] == "local":
                _, fk, nm = cell
                f = frames_by_key.get(fk)
                if f is None or nm in keep:
                    continue
                if nm in f.vars:
                    if not isinstance(f.vars[nm], MaybeUnbound):
                        f.vars[nm] = self.fresh(f"hv_{nm}")
                elif getattr(f, "fnode", None) is not None and nm in function_locals(f.fnode):
                    f.vars[nm] = MaybeUnbound(nm)
            elif cell[0] == "heap":
                _, nm, oid = cell
                h, a = self.st.field(nm)
                if oid is None:
                    fields_all.add(nm)
                else:
                    self.st.heap[nm] = z3.Store(h, oid, self.fresh(f"hh_{nm}"))
                    # an attribute can only come into existence through a store (deletion is a separate cell)
                    self.st.has[nm] = z3.Store(a, oid, z3.Or(z3.Select(a, oid), self.fresh_bool(f"ha_{nm}")))
            elif cell[0] == "heapdel":
                _, nm, oid = cell
                h, a = self.st.field(nm)
                if oid is None:
                    fields_all.add(nm)
                else:
                    self.st.has[nm] = z3.Store(a, oid, self.fresh_bool(f"hd_{nm}"))
            elif cell[0] == "clock":
                n2 = self.fresh_real("now")
                self.assume(n2 >= self.st.now)
                self.st.now = n2
        for nm in fields_all:
            self.counter += 1
            self.st.heap[nm] = z3.Const(f"HH_{nm}~{self.counter}", self.st.heap[nm].sort())
            self.st.has[nm] = z3.Const(f"HA_{nm}~{self.counter}", self.st.has[nm].sort())

    # ======================================================================== assignment
    def assign(self, target, val):
        if isinstance(target, ast.Name):
            self.set_local(target.id, val)
        elif isinstance(target, ast.Attribute):
            obj = self.eval(target.value)
            self.store_attr(obj, target.attr, val, target)
        elif isinstance(target, ast.Subscript):
            from . import prelude
            cont = self.eval(target.value)
            key = self.eval(target.slice)
            new = prelude.set_item(self, cont, key, val, target)
            self.write_back(target.value, new)
        elif isinstance(target, (ast.Tuple, ast.List)) and any(isinstance(t, ast.Starred) for t in target.elts):
            from . import prelude
            stars = [k for k, t in enumerate(target.elts) if isinstance(t, ast.Starred)]
            if len(stars) != 1:
                raise Unsupported("several starred targets", target)
            seq, _k = prelude.seq_and_kind(self, val, target)
            if seq is None:
                raise Unsupported("starred unpacking of a non-sequence", target)
            before, after = target.elts[:stars[0]], target.elts[stars[0] + 1:]
            n, need = z3.Length(seq), len(target.elts) - 1
            if not self.choose(n >= need, "star_unpack_len"):
                self.throw("ValueError", "not enough values to unpack")
            for j, t in enumerate(before):
                self.assign(t, z3.simplify(seq[j]))
            self.assign(target.elts[stars[0]].value,
                        V.VList(z3.simplify(z3.Extract(seq, z3.IntVal(len(before)), n - need))))
            for j, t in enumerate(after):
                self.assign(t, z3.simplify(seq[n - len(after) + j]))
        elif isinstance(target, (ast.Tuple, ast.List)):
            from . import prelude
            elems = prelude.unpack(self, val, len(target.elts), target)
            for t, e in zip(target.elts, elems):
                self.assign(t, e)
        elif isinstance(target, ast.Starred):
            raise Unsupported("starred assignment", target)
        else:
            raise Unsupported("assignment target", target)

    def write_back(self, expr, new):
        """Containers are values: an element update is written back to the place it was read from
        (names, attributes, nested subscripts).  Assumes no aliasing of mutable containers."""
        if isinstance(expr, ast.Name):
            old = self.frame.vars.get(expr.id)
            self.set_local(expr.id, new)
            if old is not None and z3.is_expr(old):
                self._alias_write_through(expr.id, old, new)
        elif isinstance(expr, ast.Attribute):
            obj = self.eval(expr.value)
            self.store_attr(obj, expr.attr, new, expr)
        elif isinstance(expr, ast.Subscript):
            from . import prelude
            cont = self.eval(expr.value)
            key = self.eval(expr.slice)
            self.write_back(expr.value, prelude.set_item(self, cont, key, new, expr))
        elif isinstance(expr, ast.Call) and isinstance(expr.func, ast.Attribute) and expr.func.attr == "setdefault" \
                and len(expr.args) in (1, 2) and not expr.keywords:
            # d.setdefault(k, dflt) returns the container stored at d[k]: mutating it is d[k] = new
            # (the call itself was evaluated already and has inserted the default when the key was absent)
            from . import prelude
            cont = self.eval(expr.func.value)
            if V.ctor_name(z3.simplify(cont)) != "dict" and not prelude.entails(self, V.is_dict(cont)):
                raise Unsupported("mutation of the result of a non-dict setdefault", expr)
            key = self.eval(expr.args[0])
            self.write_back(expr.func.value, prelude.set_item(self, cont, key, new, expr))
        elif isinstance(expr, ast.Call):
            raise Unsupported("mutation of a container returned by a call", expr)
        else:
            raise Unsupported("write-back target", expr)

    def store_attr(self, obj, name, val, node):
        sv = z3.simplify(obj)
        cn = V.ctor_name(sv)
        if cn is None:
            if not self.choose(V.is_obj(sv), "setattr_on_obj"):
                self.throw("AttributeError", f"cannot set attribute {name}")
        elif cn != "obj":
            d = self.ctx.fn_desc(sv) if cn == "fn" else None
            raise Unsupported(f"attribute store on {cn}", node)
        cd = self.class_of(sv)
        if cd is not None and cd.kind == "env":
            h = getattr(cd.info, "setattr_hook", None)
            if h is not None and h(self, sv, name, val):
                return
        self.set_attr(sv, name, val)

    # ======================================================================== expressions
    def eval(self, e):
        m = getattr(self, "expr_" + type(e).__name__, None)
        if m is None:
            raise Unsupported(f"expression {type(e).__name__}", e)
        return m(e)

    def expr_Constant(self, e):
        if e.value is Ellipsis:
            return V.NONE
        return V.lift(e.value)

    def expr_Name(self, e):
        if self.frame.__dict__.get("aliases"):
            self._alias_sync_read(e.id)
        return self.lookup(e.id, e)

    def expr_Await(self, e):
        if isinstance(e.value, ast.Call):
            return self.eval_call(e.value, awaited=True)
        v = self.eval(e.value)
        return self.await_value(v, e)

    def await_value(self, v, node):
        d = self.ctx.fn_desc(v)
        if d is not None and d.kind == "coro":
            fv, args, kwargs = d.payload
            return self.call(fv, args, kwargs, node, awaited=True)
        cd = self.class_of(v) if V.ctor_name(z3.simplify(v)) == "obj" else None
        if cd is not None and cd.kind == "env" and "__await__" in cd.info.methods:
            return cd.info.methods["__await__"](self, v, [], {})
        raise Unsupported("await of a non-coroutine value", node)

    def expr_Tuple(self, e):
        return V.VTuple(self._elts(e.elts))

    def expr_List(self, e):
        if any(isinstance(x, ast.Starred) for x in e.elts):
            from . import prelude
            parts = []
            for x in e.elts:
                if isinstance(x, ast.Starred):
                    sv = self.eval(x.value)
                    seq, k = prelude.seq_and_kind(self, sv, x)
                    if seq is None:
                        self.throw("TypeError", "value after * must be an iterable")
                    parts.append(seq)
                else:
                    parts.append(z3.Unit(self.eval(x)))
            return V.VList(z3.simplify(z3.Concat(*parts)) if len(parts) > 1 else parts[0])
        return V.VList(self._elts(e.elts))

    def _elts(self, elts):
        out = []
        for x in elts:
            if isinstance(x, ast.Starred):
                from . import prelude
                sv = self.eval(x.value)
                out.extend(prelude.concrete_elems(self, sv, x))
            else:
                out.append(self.eval(x))
        return out

    def expr_Set(self, e):
        elems = [self.eval(x) for x in e.elts]
        return self.ctx.fn_val(FnDesc("pyset", elems, name="set"))

    def expr_Dict(self, e):
        from . import prelude
        d = V.VDict([])
        pairs = []
        nonstr = False
        for k, v in zip(e.keys, e.values):
            if k is None:
                other = self.eval(v)
                d = prelude.dict_update(self, d, other, e)
            else:
                kv = z3.simplify(self.eval(k))
                vv = self.eval(v)
                pairs.append((kv, vv))
                if V.ctor_name(kv) not in (None, "str"):
                    nonstr = True
                if not nonstr:
                    d = prelude.set_item(self, d, kv, vv, e)
        if nonstr:
            # a literal map with non-string keys (e.g. error code -> text): kept as a static table
            return self.ctx.fn_val(FnDesc("pymap", pairs, name="dict"))
        return d

    def ctx_builtin_attr_sets(self):
        return BUILTIN_ATTRS.values()

    def expr_JoinedStr(self, e):
        from . import prelude
        parts = []
        for p in e.values:
            if isinstance(p, ast.Constant):
                parts.append(z3.StringVal(p.value))
            elif isinstance(p, ast.FormattedValue):
                v = self.eval(p.value)
                if p.format_spec is not None or p.conversion not in (-1, 115):
                    spec = self.eval(p.format_spec) if p.format_spec is not None else None
                    base = V.repr_of(v) if p.conversion == 114 else prelude.to_str(self, v)
                    if spec is not None and not (V.ctor_name(z3.simplify(spec)) == "str" and z3.is_string_value(z3.simplify(Val.s(spec)))
                                                 and z3.simplify(Val.s(spec)).as_string() == ""):
                        # a format specification (width, precision, base ...) changes the text: an uninterpreted function
                        # of the value's text and the specification (nothing is known about it but that it is a str)
                        base = prelude.format_spec_of(base, Val.s(z3.simplify(spec)))
                    parts.append(base)
                else:
                    parts.append(prelude.to_str(self, v))
        if not parts:
            return V.VStr("")
        return V.VStr(z3.simplify(z3.Concat(*parts)) if len(parts) > 1 else parts[0])

    def expr_FormattedValue(self, e):
        from . import prelude
        return V.VStr(prelude.to_str(self, self.eval(e.value)))

    def expr_BoolOp(self, e):
        is_and = isinstance(e.op, ast.And)
        v = None
        for x in e.values:
            v = self.eval(x)
            t = self.truth(v, "and" if is_and else "or")
            if is_and and not t:
                return v
            if not is_and and t:
                return v
        return v

    def expr_UnaryOp(self, e):
        v = self.eval(e.operand)
        if isinstance(e.op, ast.Not):
            return V.VBool(z3.Not(V.truthy(v))) if V.ctor_name(z3.simplify(v)) is not None else \
                (V.FALSE if self.truth(v, "not") else V.TRUE)
        from . import prelude
        return prelude.unaryop(self, e.op, v, e)

    def expr_BinOp(self, e):
        from . import prelude
        return prelude.binop(self, e.op, self.eval(e.left), self.eval(e.right), e)

    def expr_IfExp(self, e):
        if self.truth(self.eval(e.test), "ifexp"):
            return self.eval(e.body)
        return self.eval(e.orelse)

    def expr_Compare(self, e):
        from . import prelude
        left = self.eval(e.left)
        result = V.TRUE
        for op, rhs in zip(e.ops, e.comparators):
            right = self.eval(rhs)
            r = prelude.compare(self, op, left, right, e)
            if len(e.ops) == 1:
                return V.VBool(r)
            if not self.choose(r, "cmp"):
                return V.FALSE
            left = right
        return result

    def expr_Lambda(self, e):
        return self.ctx.fn_val(FnDesc("lambda", e, frame=self.frame, name="<lambda>"))

    def expr_Attribute(self, e):
        # logging.X / logger.X are resolved lazily by expr_Call; elsewhere treat as attribute
        obj = self.eval(e.value)
        return self.get_attr(obj, e.attr, e)

    def expr_Subscript(self, e):
        from . import prelude
        cont = self.eval(e.value)
        if isinstance(e.slice, ast.Slice):
            lo = self.eval(e.slice.lower) if e.slice.lower is not None else None
            hi = self.eval(e.slice.upper) if e.slice.upper is not None else None
            if e.slice.step is not None:
                raise Unsupported("slice step", e)
            return prelude.get_slice(self, cont, lo, hi, e)
        key = self.eval(e.slice)
        return prelude.get_item(self, cont, key, e)

    def expr_ListComp(self, e):
        from . import prelude
        return prelude.comprehension(self, e, "list")

    def expr_GeneratorExp(self, e):
        from . import prelude
        return prelude.comprehension(self, e, "list")

    def expr_SetComp(self, e):
        raise Unsupported("set comprehension", e)

    def expr_DictComp(self, e):
        from . import prelude
        return prelude.comprehension(self, e, "dict")

    def expr_Starred(self, e):
        raise Unsupported("starred expression", e)

    def expr_NamedExpr(self, e):
        v = self.eval(e.value)
        self.assign(e.target, v)
        return v

    # ---- calls
    def expr_Call(self, e):
        return self.eval_call(e, awaited=False)

    def _is_logging_call(self, e: ast.Call) -> bool:
        f = e.func
        if isinstance(f, ast.Attribute) and f.attr in LOG_METHODS:
            b = f.value
            if isinstance(b, ast.Name) and b.id in LOGGING_NAMES:
                return True
        if isinstance(f, ast.Name) and f.id == "print":
            return True
        if isinstance(f, ast.Attribute) and f.attr in ("print_exc",) and isinstance(f.value, ast.Name) \
                and f.value.id == "traceback":
            return True
        return False

    def eval_call(self, e: ast.Call, awaited: bool):
        if self._is_logging_call(e):
            # the argument expressions are evaluated (they can raise), the effect is dropped
            self.ctx.dropped.add("effects of logging/print calls (arguments are evaluated)")
            for a in e.args:
                self.eval(a.value if isinstance(a, ast.Starred) else a)
            for k in e.keywords:
                self.eval(k.value)
            return V.NONE
        # super().__init__(...)
        if isinstance(e.func, ast.Attribute) and isinstance(e.func.value, ast.Call) and \
                isinstance(e.func.value.func, ast.Name) and e.func.value.func.id == "super":
            return self.super_call(e)
        fv = self.eval(e.func)
        args, kwargs = self.eval_args(e)
        return self.call(fv, args, kwargs, e, awaited=awaited)

    def eval_args(self, e: ast.Call):
        from . import prelude
        args = []
        for a in e.args:
            if isinstance(a, ast.Starred):
                args.extend(prelude.concrete_elems(self, self.eval(a.value), a))
            else:
                args.append(self.eval(a))
        kwargs = {}
        for k in e.keywords:
            if k.arg is None:
                dv = z3.simplify(self.eval(k.value))
                if V.ctor_name(dv) is None or (V.ctor_name(dv) == "dict" and prelude.concrete_keys(dv) is None):
                    # a mapping with a symbolic key set: passed on opaquely (only callable environments accept it)
                    if V.ctor_name(dv) is None and not self.choose(V.is_dict(dv), "kwargs_is_dict"):
                        self.throw("TypeError", "argument after ** must be a mapping")
                    kwargs["**"] = dv
                    continue
                for kk, vv in prelude.concrete_items(self, dv, k):
                    kwargs[kk] = vv
            else:
                kwargs[k.arg] = self.eval(k.value)
        return args, kwargs

    def super_call(self, e: ast.Call):
        # only `super().__init__(...)` / super().method(...) within a method of a repo class
        f = self.frame
        while f is not None and (f.func is None or f.func.cls is None):
            f = f.parent
        if f is None:
            raise Unsupported("super() outside a method", e)
        ci: ClassInfo = f.func.cls
        selfv = f.vars.get("self", f.vars.get("cls"))
        mname = e.func.attr
        args, kwargs = self.eval_args(e)
        for c in self.ctx.repo.mro(ci)[1:]:
            if mname in c.methods:
                return self.call_function(c.methods[mname], [selfv] + args, kwargs, e)
        # external base
        cd = self.ctx.repo_class(ci)
        from . import prelude
        return prelude.external_super(self, cd, selfv, mname, args, kwargs, e)

    def call(self, fv, args, kwargs, node, awaited=False, exc=None):
        sv = z3.simplify(fv)
        cn = V.ctor_name(sv)
        if cn == "cls":
            cd = self.ctx.cls_desc(sv)
            if cd is None:
                raise Unsupported("call of a symbolic class", node)
            return self.instantiate(cd, args, kwargs, node)
        if cn == "fn":
            d = self.ctx.fn_desc(sv)
            if d is None:
                return self.dynamic_call(sv, args, kwargs, node, awaited)
            return self.call_desc(d, args, kwargs, node, awaited, exc)
        if cn == "obj":
            cd = self.class_of(sv)
            if cd is not None:
                if cd.kind == "env" and "__call__" in cd.info.methods:
                    return cd.info.methods["__call__"](self, sv, args, kwargs)
                if cd.kind == "repo":
                    m = self.ctx.repo.find_method(cd.info, "__call__")
                    if m is not None:
                        return self.call_function(m, [sv] + args, kwargs, node)
            self.throw("TypeError", "object is not callable")
        if cn is None:
            return self.dynamic_call(sv, args, kwargs, node, awaited)
        self.throw("TypeError", f"'{cn}' object is not callable")

    def dynamic_call(self, fv, args, kwargs, node, awaited):
        h = getattr(self.ctx, "dynamic_call_hook", None)
        if h is not None:
            return h(self, fv, args, kwargs, node, awaited)
        raise Unsupported("call through a symbolic callable without a dispatch contract", node)

    def call_desc(self, d: FnDesc, args, kwargs, node, awaited=False, exc=None):
        k = d.kind
        if k == "func":
            fi: FuncInfo = d.payload
            a = ([d.recv] if d.recv is not None else []) + list(args)
            if fi.is_async and not awaited and "asynccontextmanager" not in fi.decorators:
                return self.ctx.fn_val(FnDesc("coro", (self.ctx.fn_val(d), list(args), dict(kwargs)), name=fi.name))
            return self.call_function(fi, a, kwargs, node)
        if k in ("closure", "lambda"):
            fnode = d.payload
            if isinstance(fnode, ast.AsyncFunctionDef) and not awaited:
                return self.ctx.fn_val(FnDesc("coro", (self.ctx.fn_val(d), list(args), dict(kwargs)), name=d.name))
            return self.call_closure(d, args, kwargs, node)
        if k == "builtin":
            return d.payload(self, args, kwargs, node)
        if k == "bmethod":
            from . import prelude
            return prelude.builtin_method(self, d.recv, d.payload, args, kwargs, node, d)
        if k == "envmethod":
            env, name = d.payload
            fn = env.methods[name]
            if getattr(fn, "is_async", False) and not awaited:
                return self.ctx.fn_val(FnDesc("coro", (self.ctx.fn_val(d), list(args), dict(kwargs)), name=name))
            if exc is not None:
                return fn(self, d.recv, args, kwargs, exc=exc)
            return fn(self, d.recv, args, kwargs)
        if k == "envfn":
            fn = d.payload
            if getattr(fn, "is_async", False) and not awaited:
                return self.ctx.fn_val(FnDesc("coro", (self.ctx.fn_val(d), list(args), dict(kwargs)), name=d.name))
            return fn(self, args, kwargs)
        if k == "extern":
            h = self.ctx.extern_handlers.get(d.payload)
            if h is None:
                raise Unsupported(f"call of external {d.payload} without an environment contract", node)
            if getattr(h, "is_async", False) and not awaited:
                return self.ctx.fn_val(FnDesc("coro", (self.ctx.fn_val(d), list(args), dict(kwargs)), name=d.payload))
            return h(self, args, kwargs, node)
        if k == "coro":
            raise Unsupported("call of a coroutine object", node)
        if k == "pyset":
            raise Unsupported("call of a set", node)
        raise Unsupported(f"call of {k}", node)

    # ---- user functions
    def bind_params(self, fnode, args: List, kwargs: Dict, node, frame: Frame):
        if "**" in kwargs:
            raise Unsupported("** of a dict with symbolic key set into an interpreted function", node)
        a = fnode.args
        params = [p.arg for p in a.posonlyargs + a.args]
        defaults = a.defaults
        nd = len(defaults)
        npos = len(params)
        bound = {}
        if len(args) > npos and a.vararg is None:
            self.throw("TypeError", "too many positional arguments")
        for p, v in zip(params, args):
            bound[p] = v
        if a.vararg is not None:
            bound[a.vararg.arg] = V.VTuple(list(args[npos:]))
        kw = dict(kwargs)
        for p in params[len(args):]:
            if p in kw:
                bound[p] = kw.pop(p)
        for k, p in enumerate(params):
            if p not in bound:
                di = k - (npos - nd)
                if di >= 0:
                    bound[p] = ("default", defaults[di])
                else:
                    self.throw("TypeError", f"missing required argument {p}")
        for p, dflt in zip(a.kwonlyargs, a.kw_defaults):
            if p.arg in kw:
                bound[p.arg] = kw.pop(p.arg)
            elif dflt is not None:
                bound[p.arg] = ("default", dflt)
            else:
                self.throw("TypeError", f"missing keyword-only argument {p.arg}")
        if a.kwarg is not None:
            bound[a.kwarg.arg] = V.VDict([(k, v) for k, v in kw.items()])
        elif kw:
            for k in list(kw):
                if k in bound:
                    self.throw("TypeError", f"multiple values for argument {k}")
            self.throw("TypeError", f"unexpected keyword argument {sorted(kw)[0]}")
        for p, v in bound.items():
            if isinstance(v, tuple) and len(v) == 2 and v[0] == "default":
                v = self.eval(v[1])
            frame.vars[p] = v

    def call_function(self, fi: FuncInfo, args, kwargs, node, inline=False):
        ct = None if inline else self.ctx.contracts.get(fi.key)
        if ct is not None and fi.key != getattr(self, "verifying", None):
            return ct.apply(self, args, kwargs, node)
        if ct is not None and fi.key == getattr(self, "verifying", None) and len(self.call_chain) > 0:
            return ct.apply(self, args, kwargs, node)       # recursion: use the contract
        if len(self.call_chain) >= self.ctx.max_depth:
            raise Unsupported(f"inlining depth exceeded at {fi.key}", node)
        if "asynccontextmanager" in fi.decorators or "contextmanager" in fi.decorators:
            raise Unsupported(f"generator-based context manager {fi.key} needs a contract", node)
        for n in ast.walk(fi.node):
            if isinstance(n, (ast.Yield, ast.YieldFrom)):
                raise Unsupported(f"generator function {fi.key}", node)
        site = f"{fi.key}@{getattr(node, 'lineno', 0)}"
        self.call_chain.append(site)
        saved = (self.cur_func, self.cur_line)
        frame = self.push_frame(fi, fi.module, None, tag=site)
        frame.fnode = fi.node
        try:
            self.bind_params(fi.node, args, kwargs, node, frame)
            self.cur_func = fi.qualname
            try:
                self.exec_block(fi.node.body)
                return V.NONE
            except ReturnSig as r:
                return r.val
        finally:
            self.pop_frame()
            self.call_chain.pop()
            self.cur_func, self.cur_line = saved

    def call_closure(self, d: FnDesc, args, kwargs, node):
        fnode = d.payload
        if len(self.call_chain) >= self.ctx.max_depth:
            raise Unsupported("inlining depth exceeded (closure)", node)
        site = f"<{d.name}>@{getattr(node, 'lineno', 0)}"
        self.call_chain.append(site)
        saved = (self.cur_func, self.cur_line)
        frame = self.push_frame(d.frame.func if d.frame else None, d.frame.module if d.frame else None,
                                d.frame, tag=site)
        if not isinstance(fnode, ast.Lambda):
            frame.fnode = fnode
        try:
            self.bind_params(fnode, args, kwargs, node, frame)
            if isinstance(fnode, ast.Lambda):
                return self.eval(fnode.body)
            self.cur_func = d.name
            try:
                self.exec_block(fnode.body)
                return V.NONE
            except ReturnSig as r:
                return r.val
        finally:
            self.pop_frame()
            self.call_chain.pop()
            self.cur_func, self.cur_line = saved

    # ---- instantiation
    def instantiate(self, cd: ClassDesc, args, kwargs, node):
        from . import prelude
        if cd.kind == "builtin":
            b = prelude.BUILTINS.get(cd.name)
            if b is None:
                raise Unsupported(f"constructor of builtin {cd.name}", node)
            return b(self, args, kwargs, node)
        if cd.kind == "exc":
            msg = args[0] if args else V.VStr("")
            if args and V.ctor_name(z3.simplify(msg)) != "str":
                msg = V.VStr(prelude.to_str(self, msg))
            ev = self.make_exc(cd.name, msg)
            self.set_attr(ev, "args", V.VTuple(list(args)), record=False)
            return ev
        if cd.kind == "env":
            return cd.info.construct(self, args, kwargs, node)
        if cd.kind == "repo":
            ci: ClassInfo = cd.info
            h = getattr(self.ctx, "instantiate_hook", None)
            if h is not None:
                r = h(self, cd, args, kwargs, node)
                if r is not None:
                    return r
            if "dataclass" in ci.decorators or "NamedTuple" in ci.bases:
                # dataclass / typing.NamedTuple: the generated constructor stores each argument under the field's name
                # (a NamedTuple additionally unpacks and indexes as the tuple of its fields: prelude.seq_and_kind)
                ov = self.new_object(cd)
                names = list(ci.annotations.keys())
                if "NamedTuple" in ci.bases:
                    if not hasattr(self.ctx, "namedtuple_fields"):
                        self.ctx.namedtuple_fields = {}
                    self.ctx.namedtuple_fields[cd.cid] = names
                bound = dict(zip(names, args))
                bound.update(kwargs)
                for n in names:
                    if n in bound:
                        self.set_attr(ov, n, bound[n], record=False)
                    elif n in ci.class_attrs:
                        self.set_attr(ov, n, self.eval_module_const(ci.module, ci.class_attrs[n]), record=False)
                    else:
                        self.throw("TypeError", f"missing argument {n}")
                return ov
            ov = self.new_object(cd)
            init = self.ctx.repo.find_method(ci, "__init__")
            if init is not None:
                self.call_function(init, [ov] + list(args), kwargs, node)
            elif any(b in self.ctx.class_by_name and self.ctx.class_by_name[b].kind == "exc" for b in cd.bases):
                msg = args[0] if args else V.VStr("")
                self.set_attr(ov, "__msg__", msg, record=False)
                self.set_attr(ov, "args", V.VTuple(list(args)), record=False)
            elif args or kwargs:
                raise Unsupported(f"constructor arguments for {cd.name} without __init__", node)
            return ov
        raise Unsupported(f"instantiate {cd.kind}", node)

    # ---- attributes
    def get_attr(self, obj, name, node=None, default=None):
        """obj.name; raises the interpreted AttributeError (or returns `default` if given)."""
        from . import prelude
        sv = z3.simplify(obj)
        cn = V.ctor_name(sv)

        def missing():
            if default is not None:
                return default
            self.throw("AttributeError", f"object has no attribute '{name}'")

        if cn == "fn":
            d = self.ctx.fn_desc(sv)
            if d is None:
                return missing()
            if d.kind == "module":
                mi = self.ctx.repo.load(d.payload)
                r = self.ctx.repo.resolve_import(mi, name) if mi else None
                if r is None:
                    sub = self.ctx.repo.load(f"{d.payload}.{name}")
                    if sub is not None:
                        r = ("module", sub.name)
                if r is None:
                    return missing()
                return self.static_to_val(r)
            if d.kind == "extern":
                return self.static_to_val(("extern", f"{d.payload}.{name}"))
            if d.kind in ("func", "closure") and name == "__name__":
                return V.VStr(d.name.split(".")[-1])
            if d.kind in ("pyset", "pymap"):
                return self.ctx.fn_val(FnDesc("bmethod", name, recv=sv, name=f"set.{name}"))
            return missing()
        if cn == "cls":
            cd = self.ctx.cls_desc(sv)
            if cd is None:
                raise Unsupported("attribute of symbolic class", node)
            if name == "__name__":
                return V.VStr(getattr(cd, "short", cd.name))
            if cd.kind == "repo":
                ci: ClassInfo = cd.info
                m = self.ctx.repo.find_method(ci, name)
                if m is not None:
                    if "staticmethod" in m.decorators:
                        return self.ctx.fn_val(FnDesc("func", m, name=m.qualname), key=("func", m.key))
                    if "classmethod" in m.decorators:
                        return self.ctx.fn_val(FnDesc("func", m, recv=sv, name=m.qualname))
                    return self.ctx.fn_val(FnDesc("func", m, name=m.qualname), key=("func", m.key))
                for c in self.ctx.repo.mro(ci):
                    if name in c.class_attrs:
                        return self.eval_module_const(c.module, c.class_attrs[name])
                h = getattr(self.ctx, "class_attr_hook", None)
                if h is not None:
                    r = h(self, cd, name, node)
                    if r is not None:
                        return r
            if cd.kind == "env":
                r = cd.info.class_attr(self, name) if hasattr(cd.info, "class_attr") else None
                if r is not None:
                    return r
            return missing()
        if cn == "obj":
            return self._obj_attr(sv, name, node, default)
        if cn is not None:
            key = {"str": "str", "bytes": "bytes", "list": "list", "tuple": "tuple", "dict": "dict",
                   "int": "int", "bool": "bool", "real": "real", "none": "none"}[cn]
            if name in BUILTIN_ATTRS.get(key, ()):
                return self.ctx.fn_val(FnDesc("bmethod", name, recv=sv, name=f"{key}.{name}"))
            real_type = {"str": str, "bytes": bytes, "list": list, "tuple": tuple, "dict": dict, "int": int, "bool": bool,
                         "real": float, "none": type(None)}[key]
            if default is None and hasattr(real_type, name):
                # the real type HAS this attribute; the engine just does not model it: undecided, not an AttributeError
                raise Unsupported(f"method {key}.{name}", node)
            return missing()
        # symbolic value of unknown shape
        if self.choose(V.is_obj(sv), f"attr_{name}_on_obj"):
            return self._obj_attr(sv, name, node, default)
        for key, tester in (("dict", V.is_dict), ("str", V.is_str), ("list", V.is_list), ("tuple", V.is_tuple),
                            ("bytes", V.is_bytes)):
            if name in BUILTIN_ATTRS[key]:
                if self.choose(tester(sv), f"attr_{name}_on_{key}"):
                    return self.ctx.fn_val(FnDesc("bmethod", name, recv=sv, name=f"{key}.{name}"))
        return missing()

    def _obj_attr(self, sv, name, node, default):
        cd = self.class_of(sv)
        if cd is not None and cd.kind == "env":
            env = cd.info
            if name in env.methods:
                return self.ctx.fn_val(FnDesc("envmethod", (env, name), recv=sv, name=f"{env.name}.{name}"))
            g = getattr(env, "getattr_hook", None)
            if g is not None:
                r = g(self, sv, name)
                if r is not None:
                    return r
        if cd is not None and cd.kind == "repo":
            ci: ClassInfo = cd.info
            m = self.ctx.repo.find_method(ci, name)
            if m is not None:
                if "property" in m.decorators:
                    return self.call_function(m, [sv], {}, node)
                if "staticmethod" in m.decorators:
                    return self.ctx.fn_val(FnDesc("func", m, name=m.qualname), key=("func", m.key))
                if "classmethod" in m.decorators:
                    return self.ctx.fn_val(FnDesc("func", m, recv=V.VCls(cd.cid), name=m.qualname))
                return self.ctx.fn_val(FnDesc("func", m, recv=sv, name=m.qualname))
            h = getattr(self.ctx, "instance_attr_hook", None)
            if h is not None:
                r = h(self, cd, sv, name, node)
                if r is not None:
                    return r
        if cd is not None and cd.kind == "exc" or (cd is not None and "Exception" in cd.bases):
            if name == "args":
                pass
        val, has = self.get_field(sv, name)
        if self.choose(has, f"has_{name}"):
            return val
        if cd is not None and cd.kind == "repo":
            for c in self.ctx.repo.mro(cd.info):
                if name in c.class_attrs:
                    return self.eval_module_const(c.module, c.class_attrs[name])
        if default is not None:
            return default
        if cd is not None and cd.kind == "env" and getattr(cd.info, "closed_api", False) and not name.startswith("_"):
            # the object models an external library object whose API is only partly under contract: an attribute the
            # contract does not know is unknown behaviour (undecided), not an AttributeError of the real object
            raise Unsupported(f"environment contract {cd.info.name} says nothing about .{name}", node)
        self.throw("AttributeError", f"object has no attribute '{name}'")
